"""Semantics-preserving term rewrites shared by the template rules.

Refactorings that do not change behaviour often change the *spelling* of a term: a sub-expression moves into
a private helper, a `match` on an Option becomes `map_or`/`unwrap_or`, a closure is introduced.  The rules
compare terms with templates, so they first bring both spellings to one form:

  subst(t, params, upvars)       replace parameters / captured variables in a term
  apply_closure(prog, clo, arg)  the body of a closure literal applied to one argument
  inline_local(prog, t, ok)      replace calls to local helper functions (selected by `ok`) by their bodies;
                                 only helpers whose result is a plain term of their parameters (no loop, no
                                 unknown) are inlined, one level per call, nesting bounded by `depth`
  resolve_hashers(te, t)         finish(h) with h a std Hasher started from default() and fed v1..vn becomes the
                                 function-independent term ("hashof", (v1, .., vn)) — done in the function that
                                 owns the hasher, before its terms are substituted into another function
  option_outcomes(prog, te, t)   the payloads an Option-valued term can carry when it is Some(..), looking through
                                 Some{..}, branch joins, or/or_else/map/and_then/filter and `?`-style matches
  opt_elim(prog, te, t)          an Option elimination in any spelling as (scrutinee, none_value, some_value):
                                 match o {None => d, Some(x) => e} | o.map_or(d, |x| e) | o.unwrap_or(d) |
                                 o.map_or_else(|| d, |x| e) | o.unwrap_or_else(|| d)
"""
from . import mir
from .base import strip

OPTION_VARIANTS = {"0": "None", "1": "Some"}


def subst(t, params=None, upvars=None):
    params = params or {}
    upvars = upvars or {}

    def go(x):
        if not isinstance(x, tuple) or not x:
            return x
        if x[0] == "param" and x[1] in params:
            return params[x[1]]
        if x[0] == "upvar" and x[1] in upvars:
            return upvars[x[1]]
        if x[0] == "call":
            return (x[0], x[1], tuple(go(a) for a in x[2])) + tuple(x[3:])
        return tuple(go(a) if isinstance(a, tuple) else a for a in x)
    return go(t)


def has_unknown(t):
    bad = []

    def f(x):
        if x and x[0] in ("top", "mu", "mutref"):
            bad.append(x)
    mir.walk(t, f)
    return bool(bad)


def closure_fn(prog, clo):
    clo = _peel(clo)
    if not (isinstance(clo, tuple) and clo and clo[0] == "agg" and clo[1] == "closure"):
        return None, None
    fs = [g for g in prog.fns if g.npath == clo[2]]
    if len(fs) < 1:
        return None, None
    return fs[0], clo


def _peel(t):
    while isinstance(t, tuple) and t and t[0] in ("ref", "deref", "cast"):
        t = t[1] if t[0] != "cast" else t[2]
    return t


def hasher_feeds(te, h):
    """h = finish(hasher): the values fed to it, in order, when it was started from default(); else None"""
    h = strip(h)
    if not mir.is_call(h, "finish"):
        return None
    x = strip(h[2][0])
    fed = []
    while isinstance(x, tuple) and x and x[0] == "mut":
        site = x[1][0]
        cs = te.calls_by_bb.get(site)
        if cs is None or cs.callee.name != "hash":
            return None
        fed.append(strip(cs.args[0]))
        x = strip(x[3])
    if not mir.is_call(x, "default"):
        return None
    return list(reversed(fed))


def resolve_hashers(te, t):
    def go(x):
        if not isinstance(x, tuple) or not x:
            return x
        if x[0] == "call" and x[1].name == "finish":
            fed = hasher_feeds(te, x)
            if fed is not None:
                return ("hashof", tuple(go(f) for f in fed))
        if x[0] == "call":
            return (x[0], x[1], tuple(go(a) for a in x[2])) + tuple(x[3:])
        if x[0] == "mut":
            return x
        return tuple(go(a) if isinstance(a, tuple) else a for a in x)
    return go(t)


def apply_closure(prog, clo, arg=None, arg2=None):
    """closure literal applied to `arg` (None for a zero-argument closure): its result term, or None"""
    c0 = _peel(clo)
    if isinstance(c0, tuple) and c0 and c0[0] == "fnref" and arg is not None:
        # a function item used as a callback: an enum variant constructor (`.map(BddPtr::Reg)`) or a local function
        cal = c0[1]
        path = cal.def_ or cal.res or ""
        if "::" in path:
            adt, var = path.rsplit("::", 1)
            a = prog.adts.get(mir.norm(adt)) or prog.adts.get(adt)
            if a and any(v["name"] == var for v in a.get("variants", [])):
                ops = (arg,) if arg2 is None else (arg, arg2)
                return ("agg", "adt", mir.norm(adt), var, ops, tuple(str(i) for i in range(len(ops))))
        hs = [h for h in prog.resolve(cal) if "{closure" not in h.npath]
        if len(hs) == 1 and hs[0].terms.ret is not None and not has_unknown(hs[0].terms.ret):
            ps = {1: arg}
            if arg2 is not None:
                ps[2] = arg2
            return subst(resolve_hashers(hs[0].terms, hs[0].terms.ret), ps)
        return ("call", cal, (arg,) if arg2 is None else (arg, arg2))
    f, clo = closure_fn(prog, clo)
    if f is None or f.terms.ret is None:
        return None
    r = resolve_hashers(f.terms, f.terms.ret)
    if has_unknown(r):
        return None
    ups = {}
    names = clo[5] if len(clo) > 5 else ()
    for n, v in zip(names, clo[4]):
        ups[n] = v
    ps = {}
    if arg is not None:
        ps[2] = arg
    if arg2 is not None:
        ps[3] = arg2
    return subst(r, ps, ups)


def inline_local(prog, t, ok, depth=2):
    """replace calls to local helpers accepted by ok(fn) by their bodies"""
    def go(x, d):
        if not isinstance(x, tuple) or not x:
            return x
        if x[0] == "call":
            args = tuple(go(a, d) for a in x[2])
            c = x[1]
            if d > 0 and (c.local or getattr(c, "res_local", False)):
                hs = [h for h in prog.resolve(c) if ok(h)]
                if len(hs) == 1:
                    h = hs[0]
                    r = resolve_hashers(h.terms, h.terms.ret) if h.terms.ret is not None else None
                    if r is not None and not has_unknown(r) and not _calls(r, h):
                        return go(subst(r, {i + 1: a for i, a in enumerate(args)}), d - 1)
            return (x[0], c, args) + tuple(x[3:])
        return tuple(go(a, d) if isinstance(a, tuple) else a for a in x)
    return go(t, depth)


def _calls(t, fn):
    hit = []

    def f(x):
        if x and x[0] == "call" and (x[1].res == fn.npath or x[1].def_ == fn.npath):
            hit.append(x)
    mir.walk(t, f)
    return bool(hit)


def payload(o, variant="Some"):
    return ("field", ("as", o, variant), "0", "std::option::Option")


def is_payload(t, o=None, variant="Some"):
    t = strip(t)
    if isinstance(t, tuple) and len(t) >= 3 and t[0] == "field" and t[2] == "0" and isinstance(t[1], tuple) and \
            t[1][0] == "as" and t[1][2] == variant:
        return o is None or strip(t[1][1]) == strip(o) or t[1][1] == o
    return False


def opt_elim(prog, te, t):
    """(scrutinee, none_value, some_value) for an Option elimination in any of its spellings, else None"""
    t = strip(t)
    if not (isinstance(t, tuple) and t):
        return None
    if t[0] == "gamma" and isinstance(t[1], tuple) and t[1][0] == "discr":
        vm = te._discr_variants.get(t[1]) if te is not None else None
        if vm is None or set(vm.values()) != {"None", "Some"}:
            return None
        none = some = None
        for lab, v in t[2]:
            if isinstance(lab, str):
                names = [vm.get(lab)]
            elif isinstance(lab, tuple) and lab[0] == "not":
                names = [n for val, n in vm.items() if val not in lab[1]]
            else:
                names = []
            for n in names:
                if n == "None":
                    none = v
                elif n == "Some":
                    some = v
        if none is None or some is None:
            return None
        return t[1][1], none, some
    if t[0] == "call" and "Option" in (t[1].def_ or ""):
        nm, a = t[1].name, t[2]
        if nm == "unwrap_or" and len(a) == 2:
            return a[0], a[1], payload(a[0])
        if nm == "unwrap_or_default" and len(a) == 1:
            return None
        if nm == "map_or" and len(a) == 3:
            s = apply_closure(prog, a[2], payload(a[0]))
            return None if s is None else (a[0], a[1], s)
        if nm == "map_or_else" and len(a) == 3:
            n = apply_closure(prog, a[1])
            s = apply_closure(prog, a[2], payload(a[0]))
            return None if s is None or n is None else (a[0], n, s)
        if nm == "unwrap_or_else" and len(a) == 2:
            n = apply_closure(prog, a[1])
            return None if n is None else (a[0], n, payload(a[0]))
    return None


def option_outcomes(prog, te, t, depth=6):
    """payload terms of the Some(..) results an Option-valued term may evaluate to; None when a part of the term is
    not understood"""
    r = option_outcomes_g(prog, te, t, depth)
    return None if r is None else [p for p, _ in r]


def option_outcomes_g(prog, te, t, depth=6):
    """like option_outcomes, each payload paired with the predicate terms (`filter` closures applied to it) known to
    hold when that outcome is produced"""
    t = strip(t)
    if not (isinstance(t, tuple) and t) or depth < 0:
        return None
    if t[0] == "agg" and t[1] == "adt" and t[3] == "Some":
        return [(t[4][0], ())]
    if t[0] == "agg" and t[1] == "adt" and t[3] == "None":
        return []
    if t[0] in ("gamma", "phi"):
        out = []
        for _, v in t[2]:
            r = option_outcomes_g(prog, te, v, depth - 1)
            if r is None:
                return None
            out += r
        return out
    if t[0] == "call" and ("Option" in (t[1].def_ or "")):
        nm, a = t[1].name, t[2]
        if nm in ("or_else", "or") and len(a) == 2:
            first = option_outcomes_g(prog, te, a[0], depth - 1)
            alt = apply_closure(prog, a[1]) if nm == "or_else" else a[1]
            second = option_outcomes_g(prog, te, alt, depth - 1) if alt is not None else None
            return None if first is None or second is None else first + second
        if nm == "map" and len(a) == 2:
            first = option_outcomes_g(prog, te, a[0], depth - 1)
            if first is None:
                return None
            out = []
            for x, g in first:
                r = apply_closure(prog, a[1], x)
                if r is None:
                    return None
                out.append((r, g))
            return out
        if nm == "and_then" and len(a) == 2:
            first = option_outcomes_g(prog, te, a[0], depth - 1)
            if first is None:
                return None
            out = []
            for x, g in first:
                r = apply_closure(prog, a[1], x)
                r = option_outcomes_g(prog, te, r, depth - 1) if r is not None else None
                if r is None:
                    return None
                out += [(p, g + g2) for p, g2 in r]
            return out
        if nm == "filter" and len(a) == 2:
            first = option_outcomes_g(prog, te, a[0], depth - 1)
            if first is None:
                return None
            out = []
            for x, g in first:
                c = apply_closure(prog, a[1], x)
                if c is None:
                    return None
                out.append((x, g + (c,)))
            return out
        if nm in ("take", "copied", "cloned", "as_ref", "as_mut", "as_deref") and len(a) >= 1:
            return option_outcomes_g(prog, te, a[0], depth - 1)
        return None
    if t[0] == "call":
        # an opaque Option-valued call (a table lookup): Some carries its payload
        return [(payload(t), ())]
    if t[0] in ("deref", "ref") or (t[0] == "field"):
        # an Option stored in a place (a table slot)
        return [(payload(t), ())]
    return None


def inline_top(prog, te, t, ok=lambda h: True, depth=2):
    """t, with hashers resolved, and — when t itself is a call to a local helper with a plain body — the helper's
    body in its place (arguments are left as they are)"""
    t = resolve_hashers(te, strip(t))
    while depth > 0 and isinstance(t, tuple) and t and t[0] == "call" and (t[1].local or getattr(t[1], "res_local", False)):
        hs = [h for h in prog.resolve(t[1]) if "{closure" not in h.npath and ok(h)]
        if len(hs) != 1 or hs[0].terms.ret is None:
            break
        r = resolve_hashers(hs[0].terms, hs[0].terms.ret)
        if has_unknown(r) or _calls(r, hs[0]):
            break
        t = strip(subst(r, {i + 1: a for i, a in enumerate(t[2])}))
        depth -= 1
    return t


ELEM = ("elem",)


def _replace(t, pred, new):
    if isinstance(t, tuple) and t and pred(t):
        return new
    if not isinstance(t, tuple) or not t:
        return t
    if t[0] == "call":
        return (t[0], t[1], tuple(_replace(a, pred, new) for a in t[2])) + tuple(t[3:])
    return tuple(_replace(a, pred, new) if isinstance(a, tuple) else a for a in t)


def sum_of(prog, te, t):
    """(collection, summand) when t is Σ_{e ∈ collection} summand(e), the element written as ELEM:
    `coll.iter().map(|e| s).sum()` or an accumulator that starts at 0 and adds s once per loop iteration"""
    t = strip(t)
    if mir.is_call(t, "sum") and t[2]:
        m = strip(t[2][0])
        if mir.is_call(m, "map") and len(m[2]) == 2:
            s = apply_closure(prog, m[2][1], ELEM)
            if s is not None:
                coll = strip(m[2][0])
                while mir.is_call(coll, "iter") or mir.is_call(coll, "into_iter"):
                    coll = strip(coll[2][0])
                return coll, s
        return None
    if isinstance(t, tuple) and t and t[0] == "mu":
        h, l = t[1], t[2]
        init = te.mu_init.get((h, l))
        ups = te.mu_update.get((h, l)) or []
        if init is None or strip(init)[0] != "const" or str(strip(init)[2]) not in ("0", "0u128", "0_u128") or len(ups) != 1:
            return None
        u = strip(ups[0])
        if u[0] == "field" and u[2] == "0":
            u = strip(u[1])
        if not (u[0] == "bin" and u[1] in ("Add", "AddWithOverflow", "AddUnchecked")):
            return None
        a, b = strip(u[2]), strip(u[3])
        s = b if a == t else (a if b == t else None)
        if s is None:
            return None
        its = set()

        def f(x):
            if x and x[0] == "call" and x[1].name == "next" and x[2] and strip(x[2][0])[0] == "mutref":
                its.add(strip(x[2][0])[1])
        mir.walk(s, f)
        if len(its) != 1:
            return None
        it = its.pop()
        coll = te.mu_init.get((h, it))
        if coll is None:
            return None
        coll = strip(coll)
        while mir.is_call(coll, "iter") or mir.is_call(coll, "into_iter"):
            coll = strip(coll[2][0])
        s = _replace(s, lambda x: is_payload(x) and mir.is_call(strip(x[1][1]), "next"), ELEM)
        return coll, s
    return None


def local_bodies(prog, fn, ok=None, depth=2):
    """fn, the closures nested in it, and the local helpers it calls for which ok(helper) holds (with their closures),
    to the given call depth — the bodies a maintainer may spread one function's logic over"""
    ok = ok or (lambda h: h.impl_self == fn.impl_self and h.impl_self is not None)
    seen, out = set(), []

    def add(f, d):
        if id(f) in seen:
            return
        seen.add(id(f))
        out.append(f)
        for g in prog.fns:
            if g.unit == f.unit and g.npath.startswith(f.npath + "::{closure") and id(g) not in seen:
                add(g, d)
        if d <= 0:
            return
        for cs in f.terms.calls:
            c = cs.callee
            if c.local or getattr(c, "res_local", False):
                for h in prog.resolve(c):
                    if "{closure" not in h.npath and h.unit == f.unit and ok(h):
                        add(h, d - 1)
            # a helper handed over as a callback (`.map(Self::parse_one)`)
            for a in cs.args:
                for x in mir.subterms(a):
                    if isinstance(x, tuple) and x and x[0] == "fnref" and len(x) > 1 and (getattr(x[1], "local", False) or getattr(x[1], "res_local", False)):
                        for h in prog.resolve(x[1]):
                            if "{closure" not in h.npath and h.unit == f.unit and ok(h):
                                add(h, d - 1)
    add(fn, depth)
    return out


def beta(prog, t, depth=3):
    """apply closures that are called directly (`let f = |x| ..; f(v)`): call(closure literal, (v,)) becomes the body"""
    def go(x, d):
        if not isinstance(x, tuple) or not x:
            return x
        if x[0] == "call":
            args = tuple(go(a, d) for a in x[2])
            if d > 0 and x[1].name in ("call", "call_mut", "call_once") and len(args) == 2:
                clo = _peel(args[0])
                tup = strip(args[1])
                if isinstance(clo, tuple) and clo and clo[0] == "agg" and clo[1] == "closure" and \
                        isinstance(tup, tuple) and tup and tup[0] == "agg" and tup[1] == "tuple" and len(tup[4]) <= 2:
                    r = apply_closure(prog, clo, *tup[4])
                    if r is not None:
                        return go(r, d - 1)
            return (x[0], x[1], args) + tuple(x[3:])
        return tuple(go(a, d) if isinstance(a, tuple) else a for a in x)
    return go(t, depth)


# ------------------------------------------------------------------ partial evaluation under an assumed variant
PTR_PREDICATES = {
    "is_neg": lambda v: v in ("Compl", "ComplBDD"),
    "is_false": lambda v: v == "PtrFalse",
    "is_true": lambda v: v == "PtrTrue",
    "is_const": lambda v: v in ("PtrTrue", "PtrFalse"),
}


def _const_bool(b):
    return ("const", "bool", "1" if b else "0")


def _as_bool(t):
    t = strip(t)
    if isinstance(t, tuple) and t and t[0] == "const" and str(t[2]) in ("0", "1", "false", "true"):
        return str(t[2]) in ("1", "true")
    return None


def assume_variant(te, t, x, vname, preds=PTR_PREDICATES):
    """t with every test on the variant of term x resolved for x being variant `vname`: predicate calls
    (is_neg(x), is_false(x), ..) become constants, choices on discr(x) and on constant conditions are taken,
    `!const` is folded"""
    x = _peel(x)

    def is_x(a):
        return _peel(a) == x

    def go(u):
        if not isinstance(u, tuple) or not u:
            return u
        if u[0] == "call":
            if u[1].name in preds and u[2] and is_x(u[2][-1]):
                return _const_bool(preds[u[1].name](vname))
            return (u[0], u[1], tuple(go(a) for a in u[2])) + tuple(u[3:])
        if u[0] == "un" and u[1] == "Not":
            inner = go(u[2])
            b = _as_bool(inner)
            return _const_bool(not b) if b is not None else ("un", "Not", inner) + tuple(u[3:])
        if u[0] == "field" and isinstance(u[1], tuple):
            inner = go(u[1])
            si = strip(inner)
            if isinstance(si, tuple) and si and si[0] == "agg" and si[1] in ("tuple", "array") and str(u[2]).isdigit() and \
                    int(u[2]) < len(si[4]):
                return si[4][int(u[2])]
            return ("field", inner) + tuple(u[2:])
        if u[0] == "gamma":
            c = strip(u[1])
            if isinstance(c, tuple) and c and c[0] == "discr" and is_x(c[1]):
                vm = te._discr_variants.get(u[1]) or te._discr_variants.get(c) or {}
                for lab, v in u[2]:
                    if isinstance(lab, str) and vm.get(lab) == vname:
                        return go(v)
                for lab, v in u[2]:
                    if isinstance(lab, tuple) and lab[0] == "in" and any(vm.get(l_) == vname for l_ in lab[1]):
                        return go(v)
                for lab, v in u[2]:
                    if isinstance(lab, tuple) and lab[0] == "not" and all(vm.get(l_) != vname for l_ in lab[1]):
                        return go(v)
                return ("gamma", u[1], tuple((l_, go(v)) for l_, v in u[2])) + tuple(u[3:])
            cond = go(u[1])
            b = _as_bool(cond)
            if b is not None:
                for lab, v in u[2]:
                    if (lab == "0") == (not b) and isinstance(lab, str):
                        return go(v)
                for lab, v in u[2]:
                    if isinstance(lab, tuple) and lab[0] == "not" and (("0" in lab[1]) == b):
                        return go(v)
            return ("gamma", cond, tuple((l_, go(v)) for l_, v in u[2])) + tuple(u[3:])
        return tuple(go(a) if isinstance(a, tuple) else a for a in u)
    return go(t)


def feasible_alternatives(te, phi, x, vname, preds=PTR_PREDICATES):
    """alternatives of a join whose source block is not ruled out, by its dominating facts, for x being `vname`"""
    out = []
    for pb, v in phi[2]:
        pbn = int(str(pb).replace("bb", "")) if not isinstance(pb, int) else pb
        ok = True
        for c, val, vm, _ in te.facts_at(pbn):
            cc = strip(c)
            if isinstance(cc, tuple) and cc and cc[0] == "discr" and _peel(cc[1]) == _peel(x) and vm:
                names = [vm.get(val)] if isinstance(val, str) else \
                    [n for k_, n in vm.items() if isinstance(val, tuple) and val[0] == "not" and k_ not in val[1]]
                if vname not in names:
                    ok = False
                continue
            b = _as_bool(assume_variant(te, c, x, vname, preds))
            if b is not None and b != (val != "0"):
                ok = False
        if ok:
            out.append(v)
    return out


def _apply_conds(t, conds):
    """resolve the choices in t whose test is one of the open tests decided along the path"""
    known = {repr(strip(c)): lab for c, lab, _ in conds}

    def go(u):
        if not isinstance(u, tuple) or not u:
            return u
        if u[0] == "gamma":
            lab = known.get(repr(strip(u[1])))
            if lab is not None:
                for l_, v in u[2]:
                    if l_ == lab:
                        return go(v)
                for l_, v in u[2]:
                    if isinstance(l_, tuple) and l_[0] == "not" and isinstance(lab, str) and lab not in l_[1]:
                        return go(v)
                    if isinstance(lab, tuple) and lab[0] == "not" and isinstance(l_, str) and l_ not in lab[1]:
                        return go(v)
        if u[0] == "call":
            return (u[0], u[1], tuple(go(a) for a in u[2])) + tuple(u[3:])
        return tuple(go(a) if isinstance(a, tuple) else a for a in u)
    return go(t)


def paths_under(fn, x, vname, preds=PTR_PREDICATES, max_paths=64, with_conds=False):
    """the values fn can return when the term x is of variant `vname`: the CFG is walked, every branch whose condition
    folds to a constant under that assumption takes its one successor (others fork), joins are resolved by the path
    walked.  Returns a list of return terms (choices on x already resolved), or None on path explosion / loops."""
    te, cfg = fn.terms, fn.cfg
    results = []

    def pick(t, vm, c):
        cc = strip(c)
        if isinstance(cc, tuple) and cc and cc[0] == "discr" and _peel(cc[1]) == _peel(x) and vm:
            for lab, s in t["targets"]:
                if vm.get(lab) == vname:
                    return [s]
            return [t["otherwise"]]
        b = _as_bool(assume_variant(te, c, x, vname, preds))
        if b is None:
            return None
        for lab, s in t["targets"]:
            if (lab != "0") == b and lab in ("0", "1"):
                return [s]
        return [t["otherwise"]]

    def resolve(u, path):
        u = strip(u)
        if not isinstance(u, tuple) or not u:
            return u
        if u[0] == "phi":
            best = None
            for pb, v in u[2]:
                pbn = int(str(pb).replace("bb", "")) if not isinstance(pb, int) else pb
                if pbn in path:
                    i = len(path) - 1 - path[::-1].index(pbn)
                    if best is None or i > best[0]:
                        best = (i, v)
            return resolve(best[1], path) if best else u
        if u[0] == "call":
            return (u[0], u[1], tuple(resolve(a, path) for a in u[2])) + tuple(u[3:])
        return tuple(resolve(a, path) if isinstance(a, tuple) else a for a in u)

    def walk(b, path, conds):
        if len(results) > max_paths or len(path) > 200:
            raise OverflowError()
        path = path + [b]
        t = fn.blocks[b]["term"]
        if t["k"] == "return":
            r = assume_variant(te, resolve(te.ret, path), x, vname, preds)
            r = _apply_conds(r, conds)
            results.append((r, conds) if with_conds else r)
            return
        forks = None
        if t["k"] == "switch" and b in te.switch_term:
            c, vm = te.switch_term[b]
            nxt = pick(t, vm, c)
            if nxt is None:
                # an open test: fork, remembering which outcome each branch stands for
                forks = []
                c1 = assume_variant(te, c, x, vname, preds)
                for lab, s in t["targets"]:
                    forks.append((s, (c1, lab, vm)))
                forks.append((t["otherwise"], (c1, ("not", tuple(l_ for l_, _ in t["targets"])), vm)))
                nxt = None
        else:
            nxt = list(cfg.succ[b])
        if forks is not None:
            for s, cd in forks:
                if s in path or fn.blocks[s]["term"]["k"] == "unreachable":
                    continue
                walk(s, path, conds + [cd])
            return
        for s in nxt:
            if s in path or fn.blocks[s]["term"]["k"] == "unreachable":
                continue
            walk(s, path, conds)
    try:
        walk(0, [], [])
    except (OverflowError, RecursionError):
        return None
    return results


def project(t):
    """tuple{a, b}.0 -> a and array{a, b}[0] -> a, recursively"""
    if not isinstance(t, tuple) or not t:
        return t
    if t[0] == "call":
        return (t[0], t[1], tuple(project(a) for a in t[2])) + tuple(t[3:])
    t = tuple(project(a) if isinstance(a, tuple) else a for a in t)
    if t[0] == "field" and isinstance(t[1], tuple) and t[1] and strip(t[1])[0] == "agg" and strip(t[1])[1] in ("tuple", "array") and \
            str(t[2]).isdigit() and int(t[2]) < len(strip(t[1])[4]):
        return strip(t[1])[4][int(t[2])]
    if t[0] == "field" and isinstance(t[1], tuple) and t[1] and t[1][0] == "as" and t[2] == "0":
        inner = strip(t[1][1])
        if isinstance(inner, tuple) and inner and inner[0] == "agg" and inner[1] == "adt" and inner[3] == t[1][2] and len(inner[4]) == 1:
            return inner[4][0]           # (Some{x} as Some).0 -> x
    return t


def unwrap_option_term(t):
    """the value of `t.unwrap()` / `t.expect(..)` for a gated Option-valued term: `Some{v}` leaves become v, `None` leaves (the
    refusing paths) are dropped, the gating is kept"""
    t0 = strip(t)
    if isinstance(t0, tuple) and t0 and t0[0] in ("gamma", "phi"):
        arms = []
        for lab, v in t0[2]:
            u = unwrap_option_term(v)
            if u is not None:
                arms.append((lab, u))
        if not arms:
            return None
        if len(arms) == 1:
            return arms[0][1]
        return (t0[0], t0[1], tuple(arms)) + tuple(t0[3:])
    if isinstance(t0, tuple) and t0 and t0[0] == "agg" and t0[1] == "adt" and t0[3] == "None":
        return None
    if isinstance(t0, tuple) and t0 and t0[0] == "agg" and t0[1] == "adt" and t0[3] == "Some" and len(t0[4]) == 1:
        return t0[4][0]
    return payload(t0)


def through_checked(prog, t, depth=2):
    """`checked_variant(args).expect(..)` (also `.unwrap()`, `.unwrap_or_else(|| panic!(..))`) read as the value the checked
    variant of a crate function returns on its accepting paths, with the arguments in place; other terms unchanged"""
    t0 = strip(t)
    if depth and mir.is_call(t0) and t0[1].name in ("unwrap", "expect", "unwrap_unchecked", "unwrap_or_else") and t0[2] and \
            "ption" in (t0[1].def_ or ""):
        if t0[1].name == "unwrap_or_else" and len(t0[2]) == 2:
            g, _ = closure_fn(prog, t0[2][1])
            if g is None or g.cfg.returns:
                return t
        inner = strip(t0[2][0])
        if mir.is_call(inner) and (inner[1].local or getattr(inner[1], "res_local", False)):
            hs = [h for h in prog.resolve(inner[1]) if "{closure" not in h.npath]
            if len(hs) == 1 and hs[0].terms.ret is not None and not _calls(hs[0].terms.ret, hs[0]):
                body = subst(hs[0].terms.ret, {i + 1: a for i, a in enumerate(inner[2])})
                u = unwrap_option_term(body)
                if u is not None:
                    return through_checked(prog, lift_field_joins(u), depth - 1)
    return t


def lift_field_joins(t, depth=0):
    """`γ(c | a, b).f` is `γ(c | a.f, b.f)`: projections are pushed into the arms of a choice, so that a term built by
    substitution has the shape the same code has when written out"""
    if not isinstance(t, tuple) or not t or depth > 30:
        return t
    if t[0] == "call":
        return (t[0], t[1], tuple(lift_field_joins(a, depth + 1) for a in t[2])) + tuple(t[3:])
    t = tuple(lift_field_joins(a, depth + 1) if isinstance(a, tuple) else a for a in t)
    if t[0] in ("field", "as") and isinstance(t[1], tuple) and t[1] and t[1][0] == "gamma":
        g = t[1]
        return ("gamma", g[1], tuple((lab, lift_field_joins((t[0], v) + tuple(t[2:]), depth + 1)) for lab, v in g[2])) + tuple(g[3:])
    return t


def apply_fn_items(prog, te, t, depth=2):
    """`binary(LogicalExpr::Or, l, r, m)` where `fn binary(c: fn(A, B) -> T, ..) -> T { c(box(l), box(r)) }`: a call of a
    local, non-recursive helper that is handed a function item (an enum variant constructor or a function) and calls it —
    the helper's body in its place, with the call through the parameter replaced by the item it stands for.  Returns t
    unchanged when it is not of that shape."""
    t0 = strip(t)
    if depth <= 0 or not (isinstance(t0, tuple) and t0 and t0[0] == "call" and (t0[1].local or getattr(t0[1], "res_local", False))):
        return t

    def fnref(a):
        a = strip(a)
        while isinstance(a, tuple) and a and a[0] == "cast":
            a = strip(a[2])
        return a[1] if isinstance(a, tuple) and a and a[0] == "fnref" else None
    items = {i + 1: fnref(a) for i, a in enumerate(t0[2]) if fnref(a) is not None}
    if not items:
        return t
    hs = [h for h in prog.resolve(t0[1]) if "{closure" not in h.npath]
    if len(hs) != 1 or hs[0].terms.ret is None or _calls(hs[0].terms.ret, hs[0]):
        return t
    body = strip(subst(hs[0].terms.ret, {i + 1: a for i, a in enumerate(t0[2])}))

    def rebuild(x):
        if not isinstance(x, tuple) or not x:
            return x
        if x[0] == "call":
            args = tuple(rebuild(a) for a in x[2])
            ft = getattr(x[1], "fterm", None)
            ft0 = strip(ft) if ft is not None else None
            while isinstance(ft0, tuple) and ft0 and ft0[0] in ("copy", "move", "ref", "deref"):
                ft0 = strip(ft0[1])
            if x[1].def_ == "<indirect>" and isinstance(ft0, tuple) and ft0 and ft0[0] == "param" and ft0[1] in items:
                item = items[ft0[1]]
                owner, _, vname = (item.def_ or "").rpartition("::")
                adt = prog.adts.get(owner)
                if adt and any(v["name"] == vname for v in adt.get("variants", [])):
                    return ("agg", "adt", owner, vname, args, ())
                return ("call", item, args) + tuple(x[3:])
            return ("call", x[1], args) + tuple(x[3:])
        return tuple(rebuild(a) if isinstance(a, tuple) else a for a in x)
    return rebuild(body)
