"""WT — label-keyed tables are filled and read entry-for-entry.

The weight table (`WmcParams.var_to_val`) and the assignment vector that `PartialModel::from_litvec` builds are Vecs
indexed by a variable label.  Producer and consumers cooperate through two conventions that no type expresses:

  * the entry stored at the index of label(x) is computed from that same x (the pair that came with the key; the polarity
    of the very literal whose label is the index);
  * a weight entry is the pair (weight of the negative literal, weight of the positive literal): `set_weight(l, low,
    high)` stores `(low, high)`, and every reader takes `.1` for a true literal and `.0` for a false one, at the index of
    the literal's own label (`assignment_weight`; the count itself is DP's business).

WT1 producers (WmcParams::new, set_weight, from_litvec), WT2 readers (var_weight, assignment_weight), WT3 set_weight's
growth loop pads with None exactly until the index is in range.  Provenance rules over def-use terms: an index and the
value stored there must come from the same iteration item / parameters in the documented order.
"""
from . import mir
from .base import inst, OK, VIOLATION, UNDECIDED, strip, verdict_of, errtext
from .mir import show


def items_in(t):
    """iteration items mentioned in t: the `(next(it) as Some)` nodes, and closure parameters"""
    out = set()
    for x in mir.subterms(t):
        x = strip(x)
        if x[0] == "as" and len(x) >= 3 and x[2] == "Some" and "next(" in show(x[1]):
            out.add(x)
    return out


def label_index(t):
    """for an index term value_usize(label(X)) / value_usize(K) / value(..) as usize: the X or K it is the label of"""
    t = strip(t)
    while t[0] == "cast":
        t = strip(t[2])
    if mir.is_call(t, "value_usize") or mir.is_call(t, "value"):
        k = strip(t[2][0])
        if mir.is_call(k, "label"):
            return "lit", strip(k[2][0])
        return "label", k
    return None, None


def _idx_of(pl):
    pl = strip(pl)
    return strip(pl[2][1]) if mir.is_call(pl, "index_mut") else (strip(pl[2]) if pl[0] == "index" else pl)


def run(prog):
    out = []
    W = "repr::wmc::WmcParams"
    wm = {f.name: f for f in prog.lib_fns if f.impl_self and f.impl_self.startswith(W) and f.kind != "Closure" and not f.impl_trait}
    # ---- WT1 producers: every store into an indexed slot whose index is a label
    prods = [("new", wm.get("new")), ("set_weight", wm.get("set_weight"))]
    pm = [f for f in prog.lib_fns if f.name == "from_litvec" and f.impl_self and f.impl_self.endswith("PartialModel")]
    prods.append(("from_litvec", pm[0] if len(pm) == 1 else None))
    for nm, fn in prods:
        key = "%s:WT1:entry-of-its-key" % (fn.npath if fn else nm)
        if fn is None:
            out.append(inst("WT", key, UNDECIDED, None, None, "%s not found" % nm))
            continue
        te = fn.terms
        from . import canon
        stores = []
        for g_ in canon.local_bodies(prog, fn, ok=lambda h: h.impl_self == fn.impl_self):
            for (bb, pl, v, ln) in g_.terms.stores:
                if mir.is_call(strip(pl), "index_mut") or strip(pl)[0] == "index":
                    stores.append((bb, pl, v, ln))
        stores = [s_ for s_ in stores if label_index(_idx_of(s_[1]))[0] is not None] or stores
        errs = []
        sets = []
        if nm == "from_litvec" and not stores:
            # the model filled through its own mutator: `model.set(label(l), polarity(l))` per literal (PM decides `set`)
            for g_ in canon.local_bodies(prog, fn, ok=lambda h: h.impl_self == fn.impl_self):
                sets += [cs for cs in g_.terms.calls if cs.callee.name == "set" and "PartialModel" in cs.callee.key() and len(cs.args) == 3]
        if sets:
            for cs in sets:
                lab, pol = strip(cs.args[1]), strip(cs.args[2])
                if not (mir.is_call(lab, "label") and lab[2]):
                    errs.append("?the variable set is %s" % show(lab)[:40])
                elif mir.is_call(pol, "polarity") and pol[2] and strip(pol[2][0]) == strip(lab[2][0]):
                    pass
                elif mir.is_call(pol, "polarity"):
                    errs.append("the variable of %s is set to the polarity of %s" % (show(lab[2][0])[:30], show(pol[2][0])[:30]))
                elif pol[0] == "un" and pol[1] == "Not" and mir.is_call(strip(pol[2]), "polarity"):
                    errs.append("the model assigns every listed variable the *opposite* of its literal's polarity")
                elif pol[0] == "const":
                    errs.append("every listed variable is assigned %s whatever its literal's polarity" % show(pol))
                else:
                    errs.append("?the value set is %s" % show(pol)[:40])
        elif len(stores) != 1:
            errs.append("?expected one indexed store, found %d" % len(stores))
        else:
            bb, pl, v, ln = stores[0]
            idx = _idx_of(pl)
            kind, who = label_index(idx)
            v = strip(v)
            if kind is None:
                errs.append("?the index %s is not a label" % show(idx)[:40])
            elif not (v[0] == "agg" and v[3] == "Some" and len(v[4]) == 1):
                errs.append("?the stored entry is %s" % show(v)[:40])
            else:
                pay = strip(v[4][0])
                if nm == "from_litvec":
                    if mir.is_call(pay, "polarity") and strip(pay[2][0]) == who:
                        pass
                    elif mir.is_call(pay, "polarity"):
                        errs.append("the entry at the label of %s is the polarity of %s" % (show(who)[:30], show(pay[2][0])[:30]))
                    elif pay[0] == "un" and pay[1] == "Not" and mir.is_call(strip(pay[2]), "polarity"):
                        errs.append("the model assigns every listed variable the *opposite* of its literal's polarity")
                    elif pay[0] == "const":
                        errs.append("every listed variable is assigned %s whatever its literal's polarity" % show(pay))
                    else:
                        errs.append("?the stored value is %s" % show(pay)[:40])
                elif nm == "new":
                    # index = key of an item, value = the value of the same item (.0 / .1 of one pair)
                    it_i, it_v = items_in(idx), items_in(pay)
                    if not it_i and not it_v:
                        # inside a closure over the map's entries: both come from the closure's item parameter
                        pi = {x for x in mir.subterms(idx) if x[0] == "param" and x[1] >= 2}
                        pv = {x for x in mir.subterms(pay) if x[0] == "param" and x[1] >= 2}
                        it_i, it_v = pi, pv
                    if not it_i or not it_v:
                        errs.append("?index %s / value %s are not drawn from the iteration over the map" % (show(idx)[:30], show(pay)[:30]))
                    elif it_i != it_v:
                        errs.append("the weight stored for one key comes from another entry of the map")
                    else:
                        pi = [strip(x) for x in mir.subterms(idx) if strip(x)[0] == "field" and strip(strip(x)[1])[0] == "field" and strip(strip(strip(x)[1])[1]) in it_i]
                        pv = pay
                        while pv[0] in ("deref", "copy"):
                            pv = strip(pv[1])
                        if pv[0] == "field" and strip(pv[1]) in it_v and strip(pv[1])[0] == "param":
                            if pv[2] != "1":
                                errs.append("the value stored is component %s of the (key, value) item, not the value" % pv[2])
                        elif pv[0] == "field" and strip(pv[1])[0] == "field" and strip(strip(pv[1])[1]) in it_v:
                            if pv[2] != "1":
                                errs.append("the value stored is component %s of the (key, value) item, not the value" % pv[2])
                        elif pv[0] == "agg" and pv[1] == "tuple" and len(pv[4]) == 2:
                            comps = [show(strip(c)) for c in pv[4]]
                            if comps[0].endswith(".1.1") and comps[1].endswith(".1.0"):
                                errs.append("the (low, high) pair of a variable is stored swapped")
                        else:
                            errs.append("?the stored value is %s" % show(pay)[:50])
                else:  # set_weight
                    if who != ("param", 2):
                        errs.append("the entry is written at the label %s, not at the label given" % show(who)[:30])
                    if not (pay[0] == "agg" and pay[1] == "tuple" and len(pay[4]) == 2):
                        errs.append("?the stored entry is %s" % show(pay)[:40])
                    else:
                        a, b = strip(pay[4][0]), strip(pay[4][1])
                        if (a, b) == (("param", 4), ("param", 3)):
                            errs.append("set_weight(label, low, high) stores (high, low): every reader takes .0 for the negative and "
                                        ".1 for the positive literal, so the two weights of the variable are exchanged")
                        elif (a, b) != (("param", 3), ("param", 4)):
                            errs.append("set_weight(label, low, high) stores (%s, %s)" % (show(a)[:20], show(b)[:20]))
        out.append(inst("WT", key, verdict_of(errs), fn, None, errtext(errs) if errs else
                        {"new": "table[key] = Some(value) for each (key, value) of the map",
                         "set_weight": "table[label] = Some((low, high))",
                         "from_litvec": "assignment[label(l)] = Some(polarity(l))"}[nm]))
    # ---- WT3 growth loop of set_weight
    fn = wm.get("set_weight")
    if fn is not None:
        from . import canon
        errs, found = [], False
        for g_ in canon.local_bodies(prog, fn, ok=lambda h: h.impl_self == fn.impl_self):
            te = g_.terms
            for cs in te.calls:
                if cs.callee.name != "push" or "Vec" not in cs.callee.key() or "var_to_val" not in show(cs.args[0]):
                    continue
                found = True
                pv = strip(cs.args[1])
                if pv[0] == "agg" and pv[3] == "Some" and pv[4] and strip(pv[4][0])[0] == "agg" and \
                        [strip(x) for x in strip(pv[4][0])[4]] == [("param", 3), ("param", 4)]:
                    continue        # the entry itself, appended at the end of a table padded up to its index
                if not show(pv).startswith("None"):
                    errs.append("?the table is extended with %s" % show(cs.args[1])[:30])
                    continue
                okf = False
                for c, val, _, _ in te.facts_at(cs.bb):
                    c = strip(c)
                    if not (c[0] == "bin" and c[1] in ("Gt", "Lt", "Ge", "Le") and "len(" in show(c)):
                        continue
                    len_left = "len(" in show(c[2])
                    op = c[1]
                    if len_left:      # normalise to  index OP len
                        op = {"Gt": "Lt", "Lt": "Gt", "Ge": "Le", "Le": "Ge"}[op]
                    if val == "0":
                        op = {"Gt": "Le", "Lt": "Ge", "Ge": "Lt", "Le": "Gt"}[op]
                    if op == "Ge":
                        okf = True
                    elif op == "Gt":
                        errs.append("the table grows only while index > len: for index == len the store is out of bounds")
                    else:
                        errs.append("?growth condition %s %s" % (show(c)[:40], val))
                if not okf and not errs:
                    # `for _ in table.len()..=n { table.push(None) }`: one push per index from the old length up to n
                    for (h_, l_), init in te.mu_init.items():
                        if cs.bb not in g_.cfg.loop_headers.get(h_, ()):
                            continue
                        it = strip(init)
                        while mir.is_call(it, "into_iter") or mir.is_call(it, "iter"):
                            it = strip(it[2][0])
                        rng = None
                        if it[0] == "agg" and (it[2] or "").endswith("Range") and len(it[4]) == 2:
                            rng = (strip(it[4][0]), strip(it[4][1]), False)
                        elif mir.is_call(it, "new") and "RangeInclusive" in (it[1].key() or "") and len(it[2]) == 2:
                            rng = (strip(it[2][0]), strip(it[2][1]), True)
                        if rng and mir.is_call(rng[0], "len") and "var_to_val" in show(rng[0]):
                            hi_ = show(rng[1])
                            if rng[2] or "Add" in hi_:
                                okf = True
                            else:
                                errs.append("the table grows to length index, not index + 1: the store at the index is out of bounds")
                if not okf and not errs:
                    errs.append("?growth condition not found")
            if any(cs.callee.name in ("resize", "resize_with", "extend") and "var_to_val" in show(cs.args[0]) for cs in te.calls if cs.args):
                found = True            # LT decides whether such a resize is growth-only
        if not found:
            errs.append("?set_weight does not grow the table")
        out.append(inst("WT", "%s:WT3:growth" % fn.npath, verdict_of(errs), fn, None, errtext(errs) if errs else
                        "pads with None while index >= len"))
    # ---- WT2 readers
    fn = wm.get("var_weight")
    if fn is not None:
        r = strip(fn.terms.ret)
        errs = []
        from . import canon as _canon
        r = _canon.inline_local(prog, r, lambda h: h.impl_self == fn.impl_self and "{closure" not in h.npath and h is not fn)
        idxs = [strip(x) for x in mir.subterms(r) if (mir.is_call(strip(x), "index") or mir.is_call(strip(x), "get")) and len(strip(x)[2]) == 2]
        idxs = [x for i, x in enumerate(idxs) if x not in idxs[:i]]
        if len(idxs) != 1:
            errs.append("?var_weight is not one table lookup")
        else:
            kind, who = label_index(idxs[0][2][1])
            if who != ("param", 2):
                errs.append("var_weight(label) reads the entry of %s" % show(idxs[0][2][1])[:40])
        out.append(inst("WT", "%s:WT2:reads-its-label" % fn.npath, verdict_of(errs), fn, None, errtext(errs) if errs else "table[label]"))
    fn = wm.get("assignment_weight")
    if fn is not None:
        te = fn.terms
        errs = []
        from . import canon
        muls = []
        for g_ in canon.local_bodies(prog, fn, ok=lambda h: h.impl_self == fn.impl_self):
            for cs in g_.terms.calls:
                if cs.callee.name == "mul" and len(cs.args) == 2:
                    muls.append((g_, cs))
        n_ok = 0

        def lookup_lit(t):
            for x in mir.subterms(t):
                k_, who = label_index(x)
                if k_ == "lit":
                    return who
                # read through the type's own reader, whose contract (table[label]) is the instance above
                if mir.is_call(x, "var_weight") and len(x[2]) == 2 and mir.is_call(strip(x[2][1]), "label"):
                    return strip(strip(x[2][1])[2][0])
                # ... or through another reader of the same type (`try_var_weight`, `entry`) that reads the table at the
                # label it is given
                if mir.is_call(x) and (x[1].local or getattr(x[1], "res_local", False)) and len(x[2]) == 2 and \
                        mir.is_call(strip(x[2][1]), "label"):
                    hs_ = [h for h in prog.resolve(x[1]) if h.kind != "Closure"]
                    if len(hs_) == 1 and hs_[0].terms.ret is not None:
                        body = show(hs_[0].terms.ret, -20)
                        if "var_to_val" in body and ("value_usize(arg2)" in body or "value(arg2)" in body):
                            return strip(strip(x[2][1])[2][0])
            return None

        def component(t):
            t = strip(t)
            while t[0] in ("deref", "copy"):
                t = strip(t[1])
            return (t[2], t[1]) if t[0] == "field" and t[2] in ("0", "1") else (None, None)
        for g_, cs in muls:
            te = g_.terms
            w = strip(cs.args[1])
            # the factor computed by a private helper (`self.literal_weight(lit)`): look at what it returns
            if mir.is_call(w) and (w[1].local or getattr(w[1], "res_local", False)):
                hs = [h for h in prog.resolve(w[1]) if h.kind != "Closure"]
                if len(hs) == 1 and hs[0].terms.ret is not None:
                    w = strip(canon.subst(hs[0].terms.ret, {i + 1: a for i, a in enumerate(w[2])}))
            alts = []
            if w[0] == "gamma" and mir.is_call(strip(w[1]), "polarity"):
                plit = strip(strip(w[1])[2][0])
                for lab, v in w[2]:
                    alts.append((plit, lab != "0", v))
            else:
                pol = None
                for c, val, _, _ in te.facts_at(cs.bb):
                    c = strip(c)
                    if mir.is_call(c, "polarity"):
                        pol = (strip(c[2][0]), val != "0")
                if pol is not None:
                    alts.append((pol[0], pol[1], w))
            if not alts:
                errs.append("?factor %s under unknown polarity" % show(w)[:40])
                continue
            for plit, pval, v in alts:
                comp, table = component(v)
                lit = lookup_lit(v)
                if comp is None or lit is None:
                    errs.append("?a factor is %s" % show(v)[:40])
                elif plit != lit:
                    errs.append("the weight is looked up for %s but selected by the polarity of %s" % (show(lit)[:30], show(plit)[:30]))
                elif (comp == "1") != pval:
                    errs.append("a %s literal is weighted with component .%s of its variable's (low, high) pair" % ("true" if pval else "false", comp))
                else:
                    n_ok += 1
        if not muls:
            errs.append("?no product of table entries found")
        elif n_ok < 2 and not errs:
            errs.append("?only %d polarity case(s) recognised" % n_ok)
        out.append(inst("WT", "%s:WT2:weight-of-polarity" % fn.npath, verdict_of(errs), fn, None, errtext(errs) if errs else
                        "true literal ↦ table[label].1, false literal ↦ table[label].0"))
    return out
