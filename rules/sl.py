"""SL — level coherence of smoothing.

smooth_helper(bdd, current, total) rebuilds the diagram level by level.  On every path that
builds a node the label is either order.var_at_level(current), or an existing node's variable that
a dominating test has related to `current`; both children are recursive calls one level down.
SL2: callers that count models do so on smooth(_, n) with n the number of variables.
"""
from . import mir
from .base import inst, OK, VIOLATION, UNDECIDED, strip, relation
from .facts import CheckerError
from .mir import show


def _is_level_plus_one(t, cur):
    t = strip(t)
    if t[0] == "field" and t[2] == "0":
        t = t[1]
    return (t[0] == "bin" and t[1] in ("Add", "AddWithOverflow") and t[2] == cur and t[3][0] == "const" and t[3][2] == "1")


def _subst_phi(t, ph, val):
    if t == ph:
        return val
    if not isinstance(t, tuple) or not t:
        return t
    if t[0] == "call":
        return (t[0], t[1], tuple(_subst_phi(a, ph, val) for a in t[2])) + tuple(t[3:])
    return tuple(_subst_phi(a, ph, val) if isinstance(a, tuple) else a for a in t)


def _simplify(t):
    """project fields of tuple literals: tuple{a, b}.0 = a"""
    if not isinstance(t, tuple) or not t:
        return t
    if t[0] == "call":
        return (t[0], t[1], tuple(_simplify(a) for a in t[2])) + tuple(t[3:])
    t = tuple(_simplify(a) if isinstance(a, tuple) else a for a in t)
    if t[0] == "field" and isinstance(t[1], tuple) and t[1] and t[1][0] == "agg" and t[1][1] == "tuple" and str(t[2]).isdigit() \
            and int(t[2]) < len(t[1][4]):
        return t[1][4][int(t[2])]
    return t


def run(prog):
    out = []
    fn = prog.find1(name="smooth_helper", self_adt="builder::bdd::robdd::RobddBuilder", unit="rsdd-lib")
    te = fn.terms
    cur = ("param", 3)
    news = [cs for cs in te.calls if cs.callee.name == "new" and "BddNode" in cs.callee.key()]
    # one construction may serve several cases: its operands are then joins (φ) of per-case values.  Split it into
    # one virtual construction per alternative, each with the branch facts of the block the alternative comes from.
    virt = []
    for cs in news:
        phis = {}
        for a in cs.args:
            for x in mir.subterms(a):
                if x[0] == "phi":
                    phis[x[1]] = x
        if not phis:
            virt.append((cs, tuple(cs.args), list(te.facts_at(cs.bb)), True))
        elif len(phis) == 1:
            ph = list(phis.values())[0]
            for pb, val in ph[2]:
                pbn = int(str(pb).replace("bb", "")) if not isinstance(pb, int) else pb
                args = tuple(_simplify(_subst_phi(a, ph, val)) for a in cs.args)
                virt.append((cs, args, list(te.facts_at(cs.bb)) + list(te.facts_at(pbn)), True))
        else:
            virt.append((cs, tuple(cs.args), [], False))
    if len(virt) < 2:
        out.append(inst("SL", "%s:new" % fn.npath, UNDECIDED, fn, None,
                        "expected a decision case and a don't-care case among the node constructions, found %d" % len(virt)))
    used = {}
    for cs, (lbl, lo, hi), facts, understood in virt:
        errs = []
        if not understood:
            out.append(inst("SL", "%s:new#joined" % fn.npath, UNDECIDED, fn, cs.line, "operands join several cases in a way the rule does not split"))
            continue
        lbl_s = strip(lbl)
        at_level = mir.is_call(lbl_s, "var_at_level") and lbl_s[2][-1] == cur
        kids = []
        for side, ch in (("low", lo), ("high", hi)):
            c = strip(ch)
            if not (mir.is_call(c, "smooth_helper") and _is_level_plus_one(c[2][2], cur) and c[2][3] == ("param", 4)):
                lvl_calls = {x[1].name for x in mir.subterms(c[2][2]) if mir.is_call(x)} if mir.is_call(c, "smooth_helper") and len(c[2]) > 3 else set()
                if mir.is_call(c, "smooth_helper") and len(c[2]) > 3:
                    # ... and what the closures the level is computed with call (`var.map_or(total, |v| v.value_usize())`)
                    for x in mir.subterms(c[2][2]):
                        if isinstance(x, tuple) and x and x[0] == "agg" and x[1] == "closure":
                            for g_ in prog.lib_fns:
                                if g_.npath == x[2]:
                                    lvl_calls |= {cs_.callee.name for cs_ in g_.terms.calls}
                def plain_arith(t_):
                    t_ = strip(t_)
                    if t_ == cur or (isinstance(t_, tuple) and t_ and t_[0] == "const"):
                        return True
                    if isinstance(t_, tuple) and t_ and t_[0] == "field" and t_[2] == "0":
                        return plain_arith(t_[1])        # (a AddWithOverflow b).0
                    if isinstance(t_, tuple) and t_ and t_[0] == "cast":
                        return plain_arith(t_[2])
                    return isinstance(t_, tuple) and bool(t_) and t_[0] == "bin" and plain_arith(t_[2]) and plain_arith(t_[3])
                if mir.is_call(c, "smooth_helper") and c[2][3] == ("param", 4) and not (lvl_calls & {"value_usize", "value", "new_usize"}) and \
                        not plain_arith(c[2][2]):
                    # the child's level comes from somewhere else (a helper that looks the variable's level up): not read here
                    errs.append("?%s child is smoothed from level %s, which this rule does not read" % (side, show(c[2][2])[:50]))
                else:
                    errs.append(("%s child is smoothed from a level computed from the *number of a label* (%s): labels and levels "
                                 "coincide only under the identity order" % (side, show(c[2][2])[:50]))
                                if (lvl_calls & {"value_usize", "value", "new_usize"}) else
                                "%s child is not smooth_helper(_, current + 1, total): %s" % (side, show(ch)))
                kids.append(None)
            else:
                kids.append(strip(c[2][1]))
        # which case is this: the two children of one existing node, or the same diagram twice
        node = None
        if kids[0] is not None and kids[1] is not None and kids[0][0] == "field" and kids[1][0] == "field" and \
                kids[0][2] == "low" and kids[1][2] == "high" and kids[0][1] == kids[1][1]:
            node = kids[0][1]
        decision = node is not None or (not at_level)
        desc = "var_at_level(current)" if at_level else show(lbl)
        if decision:
            nv = ("field", node, "var") if node is not None else None
            related = False
            for c, val, _, d in facts:
                if val == "0":
                    continue
                c = strip(c)
                if c[0] == "bin" and c[1] == "Eq":
                    sides = (strip(c[2]), strip(c[3]))
                    for a, b in (sides, sides[::-1]):
                        is_nv = (a == lbl_s and not at_level) or (nv is not None and a[0] == "field" and a[1] == nv[1] and a[2] == "var")
                        if is_nv and mir.is_call(b, "var_at_level") and b[2][-1] == cur:
                            related = True
                        if mir.is_call(a, "get") and b == cur:
                            g = strip(a[2][-1])
                            if (g == lbl_s and not at_level) or (nv is not None and g[0] == "field" and g[1] == nv[1] and g[2] == "var"):
                                related = True
            if not at_level and node is not None and not (lbl_s[0] == "field" and lbl_s[1] == node and lbl_s[2] == "var"):
                errs.append("node is labelled %s but its children are those of %s" % (show(lbl), show(node)[:40]))
            if not at_level and node is None and kids[0] is not None and kids[1] is not None:
                errs.append("a node labelled %s must have the smoothed low and high child of that node as its children, found "
                            "%s and %s" % (show(lbl)[:40], show(kids[0])[:40], show(kids[1])[:40]))
            if not related and any(e_.startswith("?") for e_ in errs):
                errs.append("?node is labelled %s; the level it is placed at is looked up by a helper this rule does not read" % show(lbl)[:40])
            elif not related:
                errs.append("node is labelled %s without any test relating it to level `current`: when the node's "
                            "level is below `current` the skipped levels are never filled in (and the count is wrong)"
                            % show(lbl))
        else:
            if kids[0] is not None and kids[1] is not None and kids[0] != kids[1]:
                errs.append("don't-care node has different children")
        arm = "node-var" if decision else "level-var"
        used[arm] = used.get(arm, 0) + 1
        errs.sort(key=lambda e_: e_.startswith("?"))
        out.append(inst("SL", "%s:new#%s%s" % (fn.npath, arm, "" if used[arm] == 1 else "#%d" % used[arm]),
                        (UNDECIDED if errs[0].startswith("?") else VIOLATION) if errs else OK, fn, cs.line,
                        "; ".join(errs) if errs else "label %s, children one level down" % desc))
    # SL3: the argument is returned unchanged only once every level has been handled
    alts = []

    def collect(t, pb, conds):
        if isinstance(t, tuple) and t and t[0] == "phi":
            for p_, v in t[2]:
                collect(v, p_, conds)
        elif isinstance(t, tuple) and t and t[0] == "gamma":
            for lab, v in t[2]:
                collect(v, pb, conds + [(t[1], lab)])
        else:
            alts.append((pb, t, conds))
    for b, t in te.ret_by_block.items():
        collect(t, b, [])
    n_asis = 0
    for pb, t, conds in alts:
        t = strip(t)
        if mir.is_call(t, "get_or_insert") or mir.is_call(t, "neg"):
            continue
        # a memo hit (the payload of a map lookup keyed by something that contains the visited pointer) is a value this
        # function computed before, not the argument handed back: whether the memo may be trusted — fresh per call, or
        # keyed by everything the result depends on — is what GL6 / GL9 decide
        from . import canon as _canon
        if _canon.is_payload(t) and any(mir.is_call(x) and x[1].name in ("get", "get_mut", "remove", "entry")
                                        and ("HashMap" in x[1].key() or "BTreeMap" in x[1].key() or "Lru" in x[1].key())
                                        for x in mir.subterms(t)):
            continue
        n_asis += 1
        done = False
        facts = [(c, val) for c, val, _, d in te.facts_at(pb if isinstance(pb, int) and pb >= 0 else 0)] + conds
        for c, val in facts:
            r = relation(c, val, cur)
            if r and r[0] in ("Ge", "Gt", "Eq") and r[1] == ("param", 4):
                done = True
        # only the argument itself (or a child of it) handed back is "returned as is"; a value some helper built
        # (a cached tail, a folded chain) is not understood here and is left undecided
        is_arg = t == ("param", 2) or (isinstance(t, tuple) and t and t[0] in ("field", "call") and
                                       t[0] == "call" and t[1].name in ("low", "high", "low_raw", "high_raw") and t[2] and strip(t[2][0]) == ("param", 2))
        # SL4: the levels still to fill are current..total — the caller's bound, not the order's size.  A count of remaining
        # levels taken from the order (`num_vars() - current`) fills levels the caller did not ask for whenever total is smaller
        wrong_bound = None
        if not done and not is_arg:
            for x in mir.subterms(t):
                if x[0] == "bin" and any(y == cur for y in mir.subterms(x)) and \
                        not any(y == ("param", 4) for y in mir.subterms(x)) and \
                        any(mir.is_call(y) and y[1].name in ("num_vars", "len") for y in mir.subterms(x)):
                    wrong_bound = x
                    break
        if wrong_bound is not None:
            out.append(inst("SL", "%s:return-as-is" % fn.npath + ("" if n_asis == 1 else "#%d" % n_asis), VIOLATION, fn, None,
                            "a path fills `%s` levels below the current one: counted from the size of the order, not from the "
                            "`total` the caller asked for — with total below the number of variables the result has nodes for "
                            "levels outside the requested range (and two paths of one call disagree)" % show(wrong_bound)[:60]))
            continue
        out.append(inst("SL", "%s:return-as-is" % fn.npath + ("" if n_asis == 1 else "#%d" % n_asis),
                        OK if done else (VIOLATION if is_arg else UNDECIDED), fn, None,
                        "the diagram is returned unchanged only when current >= total" if done else
                        ("a path returns `%s` although levels current..total are still untested on it: the smoothed "
                         "diagram would skip those variables (wrong counts through complemented edges)" % show(t)[:60]) if is_arg else
                        "?a path returns `%s`, a value built elsewhere: not read by this rule" % show(t)[:60]))
    if n_asis < 1:
        raise CheckerError("SL3: no base-case return found in smooth_helper")
    # the Compl arm: neg(smooth_helper(Reg(node), current, total))
    # entry: smooth(bdd, n) = smooth_helper(bdd, 0, n)
    sm = prog.find1(name="smooth", self_adt="builder::bdd::robdd::RobddBuilder", unit="rsdd-lib", follow_defaults=False)
    r = strip(sm.terms.ret)
    cands = resolve_smooth(prog, r)

    def is_entry(x):
        return mir.is_call(x, "smooth_helper") and x[2][1] == ("param", 2) and x[2][2][0] == "const" and x[2][2][2] == "0" \
            and x[2][3] == ("param", 3)
    ok = bool(cands) and all(is_entry(x) for x in cands)
    out.append(inst("SL", "%s:entry" % sm.npath, OK if ok else VIOLATION, sm, None,
                    "smooth(b, n) = smooth_helper(b, 0, n)" if ok else "smooth does not start at level 0 with the given count: %s" % show(r)))
    out += sl2(prog)
    return out


def resolve_smooth(prog, t, stop=(), depth=3):
    """the diagram-valued terms a term stands for once checked-call plumbing is removed: `x.expect(..)`, `x.unwrap()`,
    `x.unwrap_or_else(|| panic!(..))` are x's payload; a call of a private/checked variant (`try_smooth`) is replaced by
    the payloads it returns, with the arguments in place"""
    from . import canon
    t = strip(t)
    if depth < 0 or not isinstance(t, tuple) or not t:
        return [t]
    if mir.is_call(t) and t[1].name in ("unwrap", "expect", "unwrap_unchecked", "unwrap_or_else") and t[2] and \
            ("ption" in (t[1].def_ or "") or "esult" in (t[1].def_ or "")):
        if t[1].name == "unwrap_or_else" and len(t[2]) == 2:
            g, _ = canon.closure_fn(prog, t[2][1])
            if g is None or g.cfg.returns:      # the fall-back closure returns a value: not a refusal
                return [t]
        return [y for x in resolve_smooth_opt(prog, t[2][0], stop, depth) for y in [x]]
    if t[0] == "field" and t[2] == "0" and isinstance(t[1], tuple) and t[1] and t[1][0] == "as" and t[1][2] in ("Some", "Ok"):
        # `match self.try_smooth(..) { Some(x) => x, None => panic!(..) }`
        return [y for x in resolve_smooth_opt(prog, t[1][1], stop, depth) for y in [x]]
    if mir.is_call(t) and t[1].local and t[1].name not in ("smooth_helper",) + tuple(stop):
        gs = [g for g in prog.resolve(t[1]) if "{closure" not in g.npath]
        if len(gs) == 1 and gs[0].terms.ret is not None:
            body = canon.subst(gs[0].terms.ret, params={i + 1: a for i, a in enumerate(t[2])})
            out = []
            for leaf in _leaves(body):
                out += resolve_smooth(prog, leaf, stop, depth - 1)
            return out
    return [t]


def resolve_smooth_opt(prog, t, stop, depth):
    """payloads of an Option-valued term (None alternatives dropped)"""
    from . import canon
    t = strip(t)
    if mir.is_call(t) and t[1].local:
        gs = [g for g in prog.resolve(t[1]) if "{closure" not in g.npath]
        if len(gs) == 1 and gs[0].terms.ret is not None:
            outs = canon.option_outcomes(prog, gs[0].terms, gs[0].terms.ret)
            if outs is not None:
                res = []
                for o in outs:
                    o = canon.subst(o, params={i + 1: a for i, a in enumerate(t[2])})
                    res += resolve_smooth(prog, o, stop, depth - 1)
                return res
    outs = canon.option_outcomes(prog, None, t)
    if outs:
        res = []
        for o in outs:
            res += resolve_smooth(prog, o, stop, depth - 1)
        return res
    return [t]


def _leaves(t):
    t = strip(t)
    if isinstance(t, tuple) and t and t[0] in ("gamma", "phi"):
        o = []
        for _, v in t[2]:
            o += _leaves(v)
        return o
    return [t]


def sl2(prog):
    """model counts in the FFI and the CLI are taken on smooth(_, num_vars)"""
    out = []
    targets = [("ffi::bdd::robdd_model_count", "rsdd-lib"), ("single_wmc", "weighted_model_count-bin")]
    for name, unit in targets:
        fns = [f for f in prog.fns if f.unit.startswith(unit) and (f.npath == name or f.npath.endswith("::" + name) or f.npath == name.split("::")[-1])]
        if len(fns) != 1:
            raise CheckerError("SL2 anchor %s not found in %s" % (name, unit))
        fn = fns[0]
        te = fn.terms
        counts = [cs for cs in te.calls if cs.callee.name == "unsmoothed_wmc"]
        if not counts:
            # the count may live in a private helper of the same module (`smoothed_model_count(builder, bdd)`)
            for cs in te.calls:
                if not (cs.callee.local or getattr(cs.callee, "res_local", False)):
                    continue
                for h in prog.resolve(cs.callee):
                    if "{closure" not in h.npath and h.npath.rsplit("::", 1)[0] == fn.npath.rsplit("::", 1)[0] and \
                            any(c.callee.name == "unsmoothed_wmc" for c in h.terms.calls):
                        fn, te = h, h.terms
                        counts = [c for c in te.calls if c.callee.name == "unsmoothed_wmc"]
                        break
                if counts:
                    break
        if not counts:
            raise CheckerError("SL2: %s performs no count" % name)
        for i, cs in enumerate(counts):
            recv = strip(cs.args[0])
            errs = []
            rc = resolve_smooth(prog, recv, stop=("smooth",))
            if rc and all(mir.is_call(x, "smooth") or (mir.is_call(x, "smooth_helper") and strip(x[2][2])[0] == "const" and strip(x[2][2])[2] == "0") for x in rc):
                recv = rc[0] if mir.is_call(rc[0], "smooth") else ("call", rc[0][1], (rc[0][2][0], rc[0][2][1], rc[0][2][3]))
            if not mir.is_call(recv, "smooth") and not mir.is_call(recv, "smooth_helper"):
                errs.append("count is taken on %s, not on a smoothed diagram" % show(recv)[:120])
            else:
                n = strip(recv[2][2])
                nv_ok = mir.is_call(n, "num_vars") or n[0] == "param"
                if not nv_ok:
                    errs.append("smoothing bound is %s, not the number of variables" % show(n))
            out.append(inst("SL", "%s:count#%d" % (fn.npath, i), VIOLATION if errs else OK, fn, cs.line,
                            "; ".join(errs) if errs else "count on smooth(_, num_vars)"))
    return out
