"""debug helper: python3 -m rules.explore <dir-with-facts|run> <substring> — print terms of matching fns"""
import json, os, sys
from . import mir, facts

def load(d):
    if d == "run":
        f, m = facts.run_driver()
        return mir.Program(f, m)
    fs = {n: json.load(open(os.path.join(d, n))) for n in os.listdir(d) if n.endswith(".json")}
    return mir.Program(fs)

if __name__ == "__main__":
    p = load(sys.argv[1])
    pat = sys.argv[2]
    for fn in p.fns:
        if pat in fn.npath:
            te = fn.terms
            print("=====", fn.npath, fn.loc(), "blocks", len(fn.blocks))
            print("  ret:", mir.show(te.ret))
            for b, t in te.ret_by_block.items():
                print("   ret@bb%d: %s   facts=%s" % (b, mir.show(t), [(mir.show(c), v) for c, v, _, _ in te.facts_at(b)]))
            for cs in te.calls:
                if cs.exp: continue
                print("   call bb%d L%d %s(%s)  facts=%s" % (cs.bb, cs.line, cs.callee.key(), ", ".join(mir.show(a) for a in cs.args),
                      [(mir.show(c), v) for c, v, _, _ in te.facts_at(cs.bb)]))
            for (bb, pt, v, line) in te.stores:
                print("   store bb%d L%d %s := %s" % (bb, line, mir.show(pt), mir.show(v)))
