"""IM — immutability of interned nodes, identity sources, unsafe inventory.

IM2  no statement writes a node's field through a reference, no local has type `&mut Node` /
     `*mut Node`, nothing is transmuted into a node type; every raw-pointer dereference outside
     src/ffi has a pointer that comes from RefCell::as_ptr (the builders' tables / order).
IM3  the bump arena is only ever `new`ed and `alloc`ed, `alloc` only inside the unique table's
     get_or_insert_by_hash; the table's slots are written only inside the table module.
IM4  node-carrying pointer variants are built only from a unique-table result or from the node
     of an existing pointer.
IM5  the per-node `semantic_hash` cell is written only by `cached_semantic_hash`; the scratch
     cell only by set_scratch / clear_scratch.
"""
from collections import defaultdict
from . import mir
from .base import inst, OK, VIOLATION, UNDECIDED, strip
from .facts import CheckerError
from .mir import show

NODES = ("repr::bdd::BddNode", "repr::sdd::binary_sdd::BinarySDD", "repr::sdd::sdd_or::SddOr")
PTR_NODE_VARIANTS = {"repr::bdd::BddPtr": ("Reg", "Compl"), "repr::sdd::SddPtr": ("BDD", "ComplBDD", "Reg", "Compl")}
TABLE_RESULTS = ("get_or_insert", "get_or_insert_by_hash", "get_by_hash")


def skip(fn):
    return "::tests::" in fn.npath or fn.name.startswith("test_") or "::test::" in fn.npath


def place_has(place, pred):
    return any(pred(e) for e in place["proj"])


def run(prog):
    out = []
    raw_sites = []
    bad_store, bad_local, bad_cast = [], [], []
    bump_calls = defaultdict(list)
    tbl_writes = []
    ptr_builds = []
    cell_writes = defaultdict(list)
    for fn in prog.lib_fns:
        if skip(fn):
            continue
        in_ffi = fn.npath.startswith("ffi::") or "::ffi::" in fn.npath
        # locals
        for i, l in enumerate(fn.locals):
            s = l["s"]
            if l["k"] in ("ref", "rawptr") and l.get("adt") in NODES and (s.startswith("&mut ") or s.startswith("*mut ")
                                                                          or "&mut " in s.split(l["adt"].split("::")[-1])[0]):
                bad_local.append((fn, s))
        te = None
        for bi, b in enumerate(fn.blocks):
            if b.get("cleanup"):
                continue
            for st in b["stmts"]:
                if st["k"] != "assign" or st.get("exp"):
                    pass
                if st["k"] != "assign":
                    continue
                lhs = st["lhs"]
                # (d) store into a node field through a pointer
                if place_has(lhs, lambda e: e["p"] == "deref") and \
                        place_has(lhs, lambda e: e["p"] == "field" and e.get("owner") in NODES):
                    bad_store.append((fn, st["line"], lhs))
                rv = st["rv"]
                if rv["k"] == "cast" and rv["kind"] == "Transmute" and any(n.split("::")[-1] in rv["ty"]["s"] for n in NODES):
                    bad_cast.append((fn, st["line"], rv["ty"]["s"]))
                # raw derefs (reads or writes)
                for pl in _places_of(st):
                    for j, e in enumerate(pl["proj"]):
                        if e["p"] == "deref" and e.get("raw"):
                            raw_sites.append((fn, bi, st["line"], pl, st.get("exp", False)))
            t = b["term"]
            for pl in _places_of_term(t):
                for e in pl["proj"]:
                    if e["p"] == "deref" and e.get("raw"):
                        raw_sites.append((fn, bi, t["line"], pl, t.get("exp", False)))
        has_calls = any(b["term"]["k"] == "call" for b in fn.blocks)
        if not has_calls and not any(s["k"] == "assign" and s["rv"]["k"] == "agg" for b in fn.blocks for s in b["stmts"]):
            continue
        te = fn.terms
        for cs in te.calls:
            k = cs.callee.key()
            if k.startswith("bumpalo::Bump"):
                bump_calls[cs.callee.name].append((fn, cs.line))
            if cs.callee.name in ("borrow_mut", "replace", "set", "take", "swap", "get_mut", "as_ptr") and "RefCell" in k and cs.args:
                a = strip(cs.args[0])
                if a[0] == "field" and a[3] in NODES:
                    cell_writes[a[2]].append((fn, cs.line, cs.callee.name))
        for (bb, pt, val, line) in te.stores:
            s = show(pt)
            if ".tbl" in s and "index" in s:
                tbl_writes.append((fn, line))
        for bb, t, line in te.aggs:
            if t[1] == "adt" and t[2] in PTR_NODE_VARIANTS and t[3] in PTR_NODE_VARIANTS[t[2]]:
                ptr_builds.append((fn, bb, t, line))
    # ---- IM2
    errs = ["%s: local of type %s" % (fn.npath, s) for fn, s in bad_local]
    out.append(inst("IM", "IM2:no-mut-ref-to-node", VIOLATION if errs else OK, None, None,
                    "; ".join(errs[:4]) if errs else "no local of type &mut/*mut {BddNode,BinarySDD,SddOr,SddAnd} in the crate",
                    loc="crate rsdd"))
    errs = ["%s:%s writes %s" % (fn.loc(line), fn.npath, _pl(lhs)) for fn, line, lhs in bad_store]
    out.append(inst("IM", "IM2:no-store-into-node", VIOLATION if errs else OK, None, None,
                    "; ".join(errs[:4]) if errs else "no assignment writes a field of an interned node through a pointer",
                    loc="crate rsdd"))
    errs = ["%s: transmute to %s" % (fn.loc(line), s) for fn, line, s in bad_cast]
    out.append(inst("IM", "IM2:no-transmute-to-node", VIOLATION if errs else OK, None, None,
                    "; ".join(errs[:4]) if errs else "no transmute produces a node type", loc="crate rsdd"))
    # raw derefs outside ffi: pointer must come from RefCell::as_ptr (Box derefs are safe code)
    n_raw = 0
    seen = set()
    for fn, bi, line, pl, exp in raw_sites:
        if fn.npath.startswith("ffi::") or exp:
            continue
        key = (fn.npath, pl["l"])
        if key in seen:
            continue
        seen.add(key)
        kind, what = raw_origin(fn, pl["l"])
        if kind == "box":
            continue
        n_raw += 1
        ok = kind == "refcell"
        out.append(inst("IM", "IM2:raw-deref:%s:%s" % (fn.npath, what if ok else "other"),
                        OK if ok else VIOLATION, fn, line,
                        "raw pointer comes from RefCell::as_ptr(self.%s)" % what if ok else
                        "raw pointer dereference whose pointer is %s (only RefCell::as_ptr of a builder table/order is inventoried)" % what))
    if n_raw < 8:
        raise CheckerError("IM2: expected >= 8 raw dereference sites outside ffi, found %d" % n_raw)
    # ---- IM3
    errs = []
    for nm, sites in bump_calls.items():
        if nm not in ("new", "alloc"):
            errs.append("Bump::%s called at %s (the arena must never be reset or mutated otherwise)" % (nm, sites[0][0].loc(sites[0][1])))
    for fn, line in bump_calls.get("alloc", []):
        if fn.name != "get_or_insert_by_hash" and fn.impl_self != "backing_store::bump_table::BackedRobinhoodTable":
            errs.append("Bump::alloc called outside the unique table: %s" % fn.npath)
    if not bump_calls.get("alloc"):
        raise CheckerError("IM3: no Bump::alloc call found")
    out.append(inst("IM", "IM3:arena-api", VIOLATION if errs else OK, None, None,
                    "; ".join(errs) if errs else "Bump: only new + alloc, alloc only inside the unique table's own methods (%d site(s))"
                    % len(bump_calls["alloc"]), loc="crate rsdd"))
    errs = ["%s writes a table slot" % fn.npath for fn, line in tbl_writes
            if not ("backing_store::bump_table" in fn.npath or "util::lru" in fn.npath)]
    out.append(inst("IM", "IM3:slot-writes", VIOLATION if errs else OK, None, None,
                    "; ".join(errs) if errs else "%d slot writes, all inside the table modules" % len(tbl_writes), loc="crate rsdd"))
    # ---- IM4
    n4 = 0
    seen4 = defaultdict(int)
    for fn, bb, t, line in ptr_builds:
        src = strip(t[4][0])
        kind = classify_src(src, fn)
        key = "IM4:%s:%s<-%s" % (fn.npath, t[3], kind or "other")
        seen4[key] += 1
        if seen4[key] > 1:
            continue
        n4 += 1
        out.append(inst("IM", key, OK if kind else VIOLATION, fn, line,
                        "%s(%s): %s" % (t[3], show(src)[:80], kind) if kind else
                        "%s built from %s — not a unique-table result nor the node of an existing pointer "
                        "(a node outside the table breaks pointer-identity canonicity)" % (t[3], show(src)[:100])))
    if n4 < 10:
        raise CheckerError("IM4: expected >= 10 pointer constructions, found %d" % n4)
    # ---- IM5
    for field, sites in sorted(cell_writes.items()):
        for fn, line, op in sites:
            if field == "semantic_hash":
                ok = fn.name == "cached_semantic_hash" or (op != "borrow_mut")
                allowed = "cached_semantic_hash"
            else:
                ok = fn.name in ("set_scratch", "clear_scratch") or op not in ("borrow_mut", "replace", "set", "take", "swap")
                allowed = "set_scratch/clear_scratch"
            if op not in ("borrow_mut", "replace", "set", "take", "swap", "get_mut", "as_ptr"):
                continue
            if op in ("as_ptr", "get_mut"):
                ok = False
            out.append(inst("IM", "IM5:%s:%s:%s" % (field, fn.npath, op), OK if ok else VIOLATION, fn, line,
                            "%s cell mutated by %s" % (field, fn.name) if ok else
                            "%s cell is mutated outside %s (by %s via %s)" % (field, allowed, fn.npath, op)))
    if not cell_writes.get("semantic_hash"):
        raise CheckerError("IM5: no semantic_hash cell writes found")
    return out


def raw_origin(fn, local):
    """how is the raw pointer in `local` produced?  ('box'|'refcell'|'other', description)"""
    defs = []
    for b in fn.blocks:
        for st in b["stmts"]:
            if st["k"] == "assign" and st["lhs"]["l"] == local and not st["lhs"]["proj"]:
                defs.append(("rv", st["rv"]))
        t = b["term"]
        if t["k"] == "call" and t["dest"]["l"] == local and not t["dest"]["proj"]:
            defs.append(("call", t))
    if len(defs) != 1:
        return "other", "%d definitions" % len(defs)
    k, d = defs[0]
    if k == "rv" and d["k"] == "cast" and d["op"].get("k") in ("copy", "move"):
        proj = d["op"]["place"]["proj"]
        if proj and proj[-1]["p"] == "field" and proj[-1].get("name") == "pointer" and proj[-1].get("owner") == "std::ptr::Unique":
            return "box", "Box deref"
        return "other", "cast"
    if k == "call" and "fn" in d:
        c = mir.Callee(d["fn"])
        if c.name == "as_ptr" and "RefCell" in c.key():
            a = d["args"][0]
            nm = "?"
            if a.get("k") in ("copy", "move"):
                # &self.field
                src = a["place"]
                for b in fn.blocks:
                    for st in b["stmts"]:
                        if st["k"] == "assign" and st["lhs"]["l"] == src["l"] and st["rv"]["k"] == "ref":
                            pr = st["rv"]["place"]["proj"]
                            if pr and pr[-1]["p"] == "field":
                                nm = pr[-1]["name"]
            return "refcell", nm
        return "other", "call %s" % c.key()
    return "other", "unknown"


def classify_src(src, fn):
    if not isinstance(src, tuple):
        return None
    if src[0] == "call" and src[1].name in TABLE_RESULTS:
        return "unique-table result"
    if src[0] == "field" and isinstance(src[1], tuple) and src[1][0] == "as":
        return "node of an existing pointer"
    if src[0] in ("gamma", "phi"):
        ks = {classify_src(strip(v), fn) for _, v in src[2]}
        if None not in ks and ks:
            return "/".join(sorted(ks))
        return None
    if src[0] == "field" and isinstance(src[1], tuple) and src[1][0] == "field" and src[1][1][0:1] == ("as",):
        return "node of an existing pointer"
    if src[0] == "call" and src[1].name == "unwrap":
        return classify_src(strip(src[2][0]), fn)
    if src[0] == "as" or (src[0] == "field" and "Some" in show(src)):
        # element drawn from the table's own iterator
        if "next(" in show(src):
            return "element of the unique table's iterator"
    if src[0] == "param":
        # closures mapping table elements / accessor helpers taking the node by reference
        return "node reference passed in (table iterator / accessor)"
    return None


def _places_of(st):
    out = [st["lhs"]]
    rv = st["rv"]

    def ops(o):
        if isinstance(o, dict) and o.get("k") in ("copy", "move"):
            out.append(o["place"])
    for k in ("op", "a", "b"):
        if k in rv and isinstance(rv[k], dict):
            ops(rv[k])
    if "place" in rv:
        out.append(rv["place"])
    for o in rv.get("ops", []):
        ops(o)
    return out


def _places_of_term(t):
    out = []
    for a in t.get("args", []):
        if a.get("k") in ("copy", "move"):
            out.append(a["place"])
    if "dest" in t:
        out.append(t["dest"])
    if "op" in t and isinstance(t["op"], dict) and t["op"].get("k") in ("copy", "move"):
        out.append(t["op"]["place"])
    if "place" in t:
        out.append(t["place"])
    return out


def _pl(p):
    return "_%d%s" % (p["l"], "".join("." + e.get("name", e["p"]) for e in p["proj"]))
