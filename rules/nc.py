"""NC — no clause (and no literal) of the input is dropped on the way in.

The readers and the dtree builder turn *each* clause of their input into one element of their result: one
`Vec<Literal>` per DIMACS clause, one literal per DIMACS literal, one dtree leaf per clause.  Whether that is a
loop that pushes or an iterator chain that collects is free; what is not free is skipping an item:

  loop form   in a loop whose iterator runs over the clause list (or over the literals of a clause) and which
              pushes onto an accumulator that lives across the iterations, every path from the loop head back to
              the loop head passes through such a push  (a `continue` in front of the push drops the item:
              "recognised as a repeat by its signature", "already has a leaf for these variables")
  chain form  between the clause list and `collect()` only element-preserving adaptors occur
              (map, enumerate, cloned, ...); filter / filter_map / skip / take / step_by / dedup do not
  afterwards  the collected list is not thinned out in place (retain, dedup, truncate, drain, remove, ...)

A dropped clause gives the compiled function extra models; the text still parses and every later stage is
consistent with the smaller formula, so nothing downstream can notice.
"""
from . import mir
from .base import inst, OK, VIOLATION, UNDECIDED, strip
from .mir import show

TARGETS = [
    # (function, self type, markers of the item source)
    ("from_dimacs", "repr::cnf::Cnf", ("clauses", "lits(")),
    ("from_dimacs", "repr::logical_expr::LogicalExpr", ("clauses", "lits(")),
    ("from_cnf", "repr::dtree::DTree", ("clauses(",)),
    ("to_dimacs", "repr::cnf::Cnf", ("clauses",)),
]
DROPPING = ("filter", "filter_map", "skip", "skip_while", "take", "take_while", "step_by", "dedup", "dedup_by",
            "dedup_by_key", "map_while", "scan")
SHRINKING = ("retain", "retain_mut", "dedup", "dedup_by", "dedup_by_key", "truncate", "drain", "clear", "remove", "swap_remove",
             "split_off")
KEEPING = ("iter", "into_iter", "iter_mut", "map", "enumerate", "cloned", "copied", "rev", "inspect", "by_ref",
           "peekable", "zip", "chain", "collect", "from_iter", "deref", "as_slice", "clone", "to_vec")


def _bodies(prog, fn):
    return [fn] + [g for g in prog.fns if g.unit == fn.unit and g.npath.startswith(fn.npath + "::{closure")]


def run(prog):
    out = []
    for name, adt, markers in TARGETS:
        fn = prog.find1(name=name, self_adt=adt, unit="rsdd-lib")
        n = 0
        for g in _bodies(prog, fn):
            te, cfg = g.terms, g.cfg
            bufs, pushed = buffers(g)
            # ---- a buffer starts every iteration empty
            for v, (h, w) in sorted(bufs.items()):
                body = cfg.loop_headers[h]
                if (h, v) not in te.mu_init:
                    continue
                pb = {cs.bb for cs in pushed[v] if cs.bb in body}
                empt = {cs.bb for cs in te.calls if cs.bb in body and _recv(cs) == v and _is_emptying(cs)}
                # re-created: the local is assigned as a whole inside the body (let mut v = Vec::new())
                for b in body:
                    t_ = g.blocks[b]["term"]
                    if t_["k"] == "call" and t_["dest"]["l"] == v and not t_["dest"]["proj"]:
                        empt.add(b)
                    for st in g.blocks[b]["stmts"]:
                        if st["k"] == "assign" and st["lhs"]["l"] == v and not st["lhs"].get("proj"):
                            empt.add(b)
                part = {cs.bb for cs in te.calls if cs.bb in body and _recv(cs) == v and cs.callee.name in PARTIAL and not _is_emptying(cs)}
                bname = g.local_name(v) or "_%d" % v
                key = "%s:buffer@%s" % (fn.npath, bname)
                n_buf = True
                if _path(cfg, body, pb, pb, empt | part, via=h):
                    out.append(inst("NC", key, VIOLATION, g, None,
                                    "`%s` collects the parts of one item and is carried over to the next iteration: on some path it "
                                    "is filled, consumed into `%s` and filled again without having been emptied (clear, drain(..), a "
                                    "fresh Vec), so the previous item's parts become part of the next item"
                                    % (bname, g.local_name(w) or "_%d" % w)))
                elif _path(cfg, body, pb, pb, empt, via=h):
                    out.append(inst("NC", key, UNDECIDED, g, None, "`%s` is only partly emptied (pop/remove/…) on some path between two items" % bname))
                else:
                    out.append(inst("NC", key, OK, g, None, "`%s` is emptied or re-created between any two items" % bname))
            # ---- loop form
            for h, body in sorted(cfg.loop_headers.items()):
                its = [cs for cs in te.calls if cs.bb in body and cs.callee.name == "next" and cs.args and
                       strip(cs.args[0])[0] == "mutref" and (h, strip(cs.args[0])[1]) in te.mu_init]
                src = None
                for cs in its:
                    s0 = te.mu_init[(h, strip(cs.args[0])[1])]
                    if any(m in show(s0) for m in markers):
                        src = s0
                    else:
                        # a vector that was itself collected from the item list and is now consumed
                        # (`for leaf in std::mem::take(&mut leaves)`): look through the &mut at the loop's entry
                        txt = show(s0)
                        for y in mir.subterms(s0):
                            if y[0] == "mutref" and isinstance(y[1], int):
                                v = te.state_in.get(h, {}).get(y[1])
                                if v is not None and strip(v)[0] != "mu":
                                    txt += " " + show(v)
                        if any(m in txt for m in markers) and any(n_ in show(s0) for n_ in ("take(", "into_iter(", "drain(")):
                            src = s0
                if src is None:
                    continue
                pushes = {}
                for cs in te.calls:
                    if cs.bb in body and cs.callee.name in ("push", "push_back", "insert", "extend") and cs.args:
                        r = strip(cs.args[0])
                        if mir.is_call(r, "index_mut") and r[2] and strip(r[2][0])[0] == "mutref":
                            r = strip(r[2][0])          # a row of a table of accumulators (buckets[k].push(item))
                        if r[0] == "mutref" and (h, r[1]) in te.mu_init and not (r[1] in bufs and bufs[r[1]][0] == h):
                            # the accumulator is carried by *this* loop, not re-created in each iteration
                            init = strip(te.mu_init[(h, r[1])])
                            inner = [h2 for h2, b2 in cfg.loop_headers.items() if h2 != h and h2 in body and (h2, r[1]) in te.mu_init
                                     and not (isinstance(strip(te.mu_init[(h2, r[1])]), tuple) and strip(te.mu_init[(h2, r[1])])[0] == "mu")]
                            if not inner:
                                pushes.setdefault(r[1], set()).add(cs.bb)
                if not pushes:
                    # an accumulator that is re-assigned rather than pushed onto (r = format!("{r}\n{clause} 0")): the
                    # value carried to the next iteration is built from the previous one on every path
                    accs = []
                    for (h2, l), ups in te.mu_update.items():
                        if h2 != h or te.ret is None or ("mu", h, l) not in set(mir.subterms(te.ret)) | {strip(te.ret)}:
                            continue
                        if any(any(x == ("mu", h, l) for x in mir.subterms(u)) and strip(u) != ("mu", h, l) for u in ups):
                            accs.append((l, ups))
                    if not accs:
                        continue     # a fold over numbers or nothing returned: not a transforming loop
                    n += 1
                    key = "%s:loop@%s" % (fn.npath, _src_name(src))
                    bad = []
                    for l, ups in accs:
                        for u in ups:
                            if any(strip(x) == ("mu", h, l) for x in _alts(u)):
                                bad.append(g.local_name(l) or "_%d" % l)
                    out.append(inst("NC", key, VIOLATION if bad else OK, g, None,
                                    ("an iteration over %s can leave the accumulator `%s` as it was: that item of the input is "
                                     "dropped from the output" % (_src_name(src), bad[0])) if bad else
                                    "every iteration over %s extends its accumulator" % _src_name(src)))
                    continue
                n += 1
                key = "%s:loop@%s" % (fn.npath, _src_name(src))
                bad = []
                for loc, ks in sorted(pushes.items()):
                    for s in cfg.succ[h]:
                        if s in body and _cycle_avoiding(cfg, s, h, ks, body):
                            bad.append(g.local_name(loc) or "_%d" % loc)
                            break
                out.append(inst("NC", key, VIOLATION if bad else OK, g, None,
                                ("an iteration over %s can reach the next one without pushing onto `%s`: that item of the input is "
                                 "dropped (the result then has extra models)" % (_src_name(src), bad[0])) if bad else
                                "every iteration over %s pushes onto its accumulator" % _src_name(src)))
            # ---- chain form
            for cs in te.calls:
                if cs.callee.name not in ("collect", "from_iter", "partition", "unzip", "extend") or not cs.args:
                    continue
                chain, t = [], strip(cs.args[-1] if cs.callee.name == "extend" else cs.args[0])
                while isinstance(t, tuple) and t and t[0] == "call" and t[2]:
                    chain.append(t[1].name)
                    t = strip(t[2][0])
                full = show(cs.args[0])
                if not any(m in show(t) or m in full for m in markers):
                    continue
                n += 1
                drop = [c for c in chain if c in DROPPING]
                unknown = [c for c in chain if c not in DROPPING and c not in KEEPING and not any(m.startswith(c) for m in markers)]
                key = "%s:chain@%s#%d" % (fn.npath, _src_name(t), n)
                if drop:
                    out.append(inst("NC", key, VIOLATION, g, cs.line,
                                    "the items of %s pass through `%s` before they are collected: items can be dropped (the result "
                                    "then has extra models)" % (_src_name(t), drop[0])))
                elif unknown:
                    out.append(inst("NC", key, UNDECIDED, g, cs.line, "adaptor `%s` on the item stream is not known to keep every item" % unknown[0]))
                else:
                    out.append(inst("NC", key, OK, g, cs.line, "only element-preserving adaptors between %s and collect (%s)"
                                    % (_src_name(t), ", ".join(reversed(chain)) or "-")))
        # ---- the collected items are not thinned out afterwards
        for g in _bodies(prog, fn):
            bufs = buffers(g)[0]
            for cs in g.terms.calls:
                if cs.callee.name in SHRINKING and cs.args and "Vec" in cs.callee.key() and _recv(cs) not in bufs:
                    out.append(inst("NC", "%s:shrunk@%s" % (fn.npath, cs.callee.name), VIOLATION, g, cs.line,
                                    "the collected items are thinned out by `%s` (%s): items of the input are dropped (the result "
                                    "then has extra models)" % (cs.callee.name, show(cs.args[0])[:40])))
        # ---- what a loop collects is part of the result: a vector that is pushed onto inside a loop and carried from one
        # iteration to the next holds items (or subtrees made of items) when the loop ends; if nothing reads it after the
        # loop, those items are gone (a working list whose leftovers are never composed into the tree)
        if name == "from_cnf":
            g = fn
            te, cfg = g.terms, g.cfg
            for h, body in sorted(cfg.loop_headers.items()):
                carried = {}
                for cs in te.calls:
                    if cs.bb in body and cs.callee.name in ("push", "push_back", "extend", "append") and cs.args and "Vec" in cs.callee.key():
                        r = strip(cs.args[0])
                        if r[0] == "mutref" and (h, r[1]) in te.mu_init and "DTree" in show(cs.args[1] if len(cs.args) > 1 else ()) + (g.local_ty(r[1]) if hasattr(g, "local_ty") else "DTree"):
                            carried[r[1]] = cs
                for v, cs0 in sorted(carried.items()):
                    mu = ("mu", h, v)
                    # made afresh in every iteration (`let mut part = Vec::new();` inside the body): not carried by this loop
                    fresh_in_body = False
                    for b_ in body:
                        t_ = g.blocks[b_]["term"]
                        if t_["k"] == "call" and t_["dest"]["l"] == v and not t_["dest"]["proj"] and \
                                ((t_.get("fn") or {}).get("def") or "").rsplit("::", 1)[-1] in ("new", "with_capacity", "default"):
                            fresh_in_body = True
                    if fresh_in_body:
                        continue
                    used = te.ret is not None and (strip(te.ret) == mu or mu in set(mir.subterms(te.ret)))
                    # ... or it is what a later loop starts from
                    for (h2, l2), init2 in te.mu_init.items():
                        if h2 != h and h2 not in body and (strip(init2) == mu or mu in set(mir.subterms(init2))):
                            used = True
                    for cs in te.calls:
                        if used:
                            break
                        if cs.bb in body:
                            continue
                        for a in cs.args:
                            a0 = strip(a)
                            if a0 == mu or mu in set(mir.subterms(a)) or a0 == ("mutref", v) or ("mutref", v) in set(mir.subterms(a)):
                                used = True      # read, or handed over by &mut (`rest.append(&mut finished)`)
                    nm = g.local_name(v) or "_%d" % v
                    out.append(inst("NC", "%s:carried@%s" % (fn.npath, nm), OK if used else VIOLATION, g, cs0.line,
                                    "what the loop leaves in `%s` goes into the result" % nm if used else
                                    "the loop pushes subtrees onto `%s` and carries it from one iteration to the next, but nothing reads it "
                                    "after the loop: whatever is still on it when the loop ends (a clause no step selected - an empty "
                                    "clause, a clause over variables the order does not list) is not in the tree" % nm))
        if n == 0:
            out.append(inst("NC", "%s:items" % fn.npath, UNDECIDED, fn, None, "no loop or iterator chain over %s recognised" % (markers,)))
        # ---- and no clause is invented: every leaf the dtree builder makes holds one of the formula's clauses
        if name == "from_cnf":
            leaves, bad = 0, []
            # every function of the dtree module that makes a leaf (the builder's helpers included: `balanced`)
            makers = list(_bodies(prog, fn))
            for h in prog.lib_fns:
                if "repr::dtree::" in h.npath and h not in makers and "::test" not in h.npath and \
                        not (h.impl_trait or "").startswith(("std::", "core::", "serde::")) and "_::" not in h.npath:
                    makers.append(h)
            for g in makers:
                for bb, t, line in g.terms.aggs:
                    if not (t[1] == "adt" and (t[2] or "").endswith("DTree") and t[3] == "Leaf" and "clause" in t[5]):
                        continue
                    leaves += 1
                    c = strip(t[4][t[5].index("clause")])
                    while mir.is_call(c) and c[2] and c[1].name in ("clone", "to_vec", "to_owned", "cloned", "into", "deref", "as_slice"):
                        c = strip(c[2][0])
                    from_item = c[0] == "param" and g.kind == "Closure" or (c[0] == "field" and "next(" in show(c)) or \
                        (c[0] == "index" or mir.is_call(c, "index")) and "clauses" in show(c)
                    if not from_item:
                        bad.append("a leaf is built over %s (line %s), which is not a clause of the formula: the dtree's leaves are no "
                                   "longer exactly the CNF's clauses (an invented empty clause makes the compiled function false)"
                                   % (show(c)[:40], line))
            out.append(inst("NC", "%s:leaves-are-clauses" % fn.npath, VIOLATION if bad else (OK if leaves else UNDECIDED), fn, None,
                            bad[0] if bad else ("every leaf holds an item of the clause list" if leaves else "no leaf construction found")))
    return out


PUSHING = ("push", "push_back", "insert", "extend", "extend_from_slice", "append")
EMPTYING = ("clear", "take")          # plus drain(..) and truncate(0), recognised by their arguments
PARTIAL = ("pop", "remove", "swap_remove", "truncate", "drain", "retain", "retain_mut", "dedup", "dedup_by", "dedup_by_key", "split_off")


def _recv(cs):
    if not cs.args:
        return None
    r = strip(cs.args[0])
    return r[1] if isinstance(r, tuple) and r and r[0] == "mutref" else None


def _mentions(te, t, depth=3):
    """locals a value is built from, looking through loop-carried values"""
    out, todo, seen = set(), [(t, depth)], set()
    while todo:
        x, d = todo.pop()
        for y in mir.subterms(x):
            if y[0] in ("mutref", "ref") and isinstance(y[1], int):
                out.add(y[1])
            elif y[0] == "mu":
                out.add(y[2])
                if d > 0 and (y[1], y[2]) not in seen:
                    seen.add((y[1], y[2]))
                    if (y[1], y[2]) in te.mu_init:
                        todo.append((te.mu_init[(y[1], y[2])], d - 1))
                    for u in te.mu_update.get((y[1], y[2]), []):
                        todo.append((u, d - 1))
    return out


def _is_emptying(cs):
    nm = cs.callee.name
    if nm in EMPTYING:
        return True
    if nm == "drain" and len(cs.args) == 2 and "RangeFull" in show(cs.args[1]):
        return True
    if nm in ("truncate", "split_off") and len(cs.args) == 2 and show(strip(cs.args[1])) == "0":
        return True
    return False


def buffers(g):
    """vectors that are filled and then *consumed into another vector* inside one loop: {buffer local: (loop header, fed local)}.
    They hold the parts of one item (the literals of one clause); the result accumulators are the vectors they feed."""
    te, cfg = g.terms, g.cfg
    pushed = {}
    for cs in te.calls:
        if cs.callee.name in PUSHING and _recv(cs) is not None:
            pushed.setdefault(_recv(cs), []).append(cs)
    out = {}
    for w, css in pushed.items():
        for cs in css:
            for a in cs.args[1:]:
                for v in _mentions(te, a):
                    if v != w and v in pushed:
                        # the innermost loop that contains both the feeding push and a push onto the buffer
                        hs = [h for h, body in cfg.loop_headers.items() if cs.bb in body and any(c.bb in body for c in pushed[v])]
                        if hs:
                            h = min(hs, key=lambda h_: len(cfg.loop_headers[h_]))
                            out[v] = (h, w)
    return out, pushed


def _path(cfg, body, starts, goals, avoid, via=None):
    """is there a walk inside `body` from a successor of a start block to a goal block that avoids `avoid`
    (and, if given, passes the block `via`)?"""
    def reach(srcs, stop):
        seen, stack = set(), list(srcs)
        while stack:
            x = stack.pop()
            if x in seen or x not in body or x in stop:
                continue
            seen.add(x)
            stack.extend(cfg.succ[x])
        return seen
    first = reach([s for b in starts for s in cfg.succ[b]], avoid)
    if via is None:
        return bool(first & set(goals))
    if via not in first:
        return False
    second = reach(cfg.succ[via], avoid)
    return bool(second & set(goals))


def _alts(t):
    t = strip(t)
    if isinstance(t, tuple) and t and t[0] in ("phi", "gamma"):
        out = []
        for _, v in t[2]:
            out += _alts(v)
        return out
    return [t]


def _src_name(t):
    s = show(strip(t))
    for k in ("clauses", "lits"):
        if k in s:
            return k
    return s[:30]


def _cycle_avoiding(cfg, start, header, avoid, body):
    """can `header` be reached from `start` inside the loop body without passing a block of `avoid`?"""
    seen, stack = set(), [start]
    while stack:
        x = stack.pop()
        if x in seen or x in avoid or x not in body:
            continue
        if x == header:
            return True
        seen.add(x)
        stack.extend(cfg.succ[x])
    return False
