"""NC — no clause (and no literal) of the input is dropped on the way in.

The readers and the dtree builder turn *each* clause of their input into one element of their result: one
`Vec<Literal>` per DIMACS clause, one literal per DIMACS literal, one dtree leaf per clause.  Whether that is a
loop that pushes or an iterator chain that collects is free; what is not free is skipping an item:

  loop form   in a loop whose iterator runs over the clause list (or over the literals of a clause) and which
              pushes onto an accumulator that lives across the iterations, every path from the loop head back to
              the loop head passes through such a push  (a `continue` in front of the push drops the item:
              "recognised as a repeat by its signature", "already has a leaf for these variables")
  chain form  between the clause list and `collect()` only element-preserving adaptors occur
              (map, enumerate, cloned, ...); filter / filter_map / skip / take / step_by / dedup do not
  afterwards  the collected list is not thinned out in place (retain, dedup, truncate, drain, remove, ...)

A dropped clause gives the compiled function extra models; the text still parses and every later stage is
consistent with the smaller formula, so nothing downstream can notice.
"""
from . import mir
from .base import inst, OK, VIOLATION, UNDECIDED, strip
from .mir import show

TARGETS = [
    # (function, self type, markers of the item source)
    ("from_dimacs", "repr::cnf::Cnf", ("clauses", "lits(")),
    ("from_dimacs", "repr::logical_expr::LogicalExpr", ("clauses", "lits(")),
    ("from_cnf", "repr::dtree::DTree", ("clauses(",)),
]
DROPPING = ("filter", "filter_map", "skip", "skip_while", "take", "take_while", "step_by", "dedup", "dedup_by",
            "dedup_by_key", "map_while", "scan")
SHRINKING = ("retain", "retain_mut", "dedup", "dedup_by", "dedup_by_key", "truncate", "drain", "clear", "remove", "swap_remove",
             "split_off")
KEEPING = ("iter", "into_iter", "iter_mut", "map", "enumerate", "cloned", "copied", "rev", "inspect", "by_ref",
           "peekable", "zip", "chain", "collect", "from_iter", "deref", "as_slice", "clone", "to_vec")


def _bodies(prog, fn):
    return [fn] + [g for g in prog.fns if g.unit == fn.unit and g.npath.startswith(fn.npath + "::{closure")]


def run(prog):
    out = []
    for name, adt, markers in TARGETS:
        fn = prog.find1(name=name, self_adt=adt, unit="rsdd-lib")
        n = 0
        for g in _bodies(prog, fn):
            te, cfg = g.terms, g.cfg
            # ---- loop form
            for h, body in sorted(cfg.loop_headers.items()):
                its = [cs for cs in te.calls if cs.bb in body and cs.callee.name == "next" and cs.args and
                       strip(cs.args[0])[0] == "mutref" and (h, strip(cs.args[0])[1]) in te.mu_init]
                src = None
                for cs in its:
                    s0 = te.mu_init[(h, strip(cs.args[0])[1])]
                    if any(m in show(s0) for m in markers):
                        src = s0
                if src is None:
                    continue
                pushes = {}
                for cs in te.calls:
                    if cs.bb in body and cs.callee.name in ("push", "push_back", "insert", "extend") and cs.args:
                        r = strip(cs.args[0])
                        if r[0] == "mutref" and (h, r[1]) in te.mu_init:
                            # the accumulator is carried by *this* loop, not re-created in each iteration
                            init = strip(te.mu_init[(h, r[1])])
                            inner = [h2 for h2, b2 in cfg.loop_headers.items() if h2 != h and h2 in body and (h2, r[1]) in te.mu_init
                                     and not (isinstance(strip(te.mu_init[(h2, r[1])]), tuple) and strip(te.mu_init[(h2, r[1])])[0] == "mu")]
                            if not inner:
                                pushes.setdefault(r[1], set()).add(cs.bb)
                if not pushes:
                    continue     # a fold, not a transforming loop
                n += 1
                key = "%s:loop@%s" % (fn.npath, _src_name(src))
                bad = []
                for loc, ks in sorted(pushes.items()):
                    for s in cfg.succ[h]:
                        if s in body and _cycle_avoiding(cfg, s, h, ks, body):
                            bad.append(g.local_name(loc) or "_%d" % loc)
                            break
                out.append(inst("NC", key, VIOLATION if bad else OK, g, None,
                                ("an iteration over %s can reach the next one without pushing onto `%s`: that item of the input is "
                                 "dropped (the result then has extra models)" % (_src_name(src), bad[0])) if bad else
                                "every iteration over %s pushes onto its accumulator" % _src_name(src)))
            # ---- chain form
            for cs in te.calls:
                if cs.callee.name not in ("collect", "from_iter", "partition", "unzip", "extend") or not cs.args:
                    continue
                chain, t = [], strip(cs.args[-1] if cs.callee.name == "extend" else cs.args[0])
                while isinstance(t, tuple) and t and t[0] == "call" and t[2]:
                    chain.append(t[1].name)
                    t = strip(t[2][0])
                full = show(cs.args[0])
                if not any(m in show(t) or m in full for m in markers):
                    continue
                n += 1
                drop = [c for c in chain if c in DROPPING]
                unknown = [c for c in chain if c not in DROPPING and c not in KEEPING and not any(m.startswith(c) for m in markers)]
                key = "%s:chain@%s#%d" % (fn.npath, _src_name(t), n)
                if drop:
                    out.append(inst("NC", key, VIOLATION, g, cs.line,
                                    "the items of %s pass through `%s` before they are collected: items can be dropped (the result "
                                    "then has extra models)" % (_src_name(t), drop[0])))
                elif unknown:
                    out.append(inst("NC", key, UNDECIDED, g, cs.line, "adaptor `%s` on the item stream is not known to keep every item" % unknown[0]))
                else:
                    out.append(inst("NC", key, OK, g, cs.line, "only element-preserving adaptors between %s and collect (%s)"
                                    % (_src_name(t), ", ".join(reversed(chain)) or "-")))
        # ---- the collected items are not thinned out afterwards
        for g in _bodies(prog, fn):
            for cs in g.terms.calls:
                if cs.callee.name in SHRINKING and cs.args and "Vec" in cs.callee.key():
                    out.append(inst("NC", "%s:shrunk@%s" % (fn.npath, cs.callee.name), VIOLATION, g, cs.line,
                                    "the collected items are thinned out by `%s` (%s): items of the input are dropped (the result "
                                    "then has extra models)" % (cs.callee.name, show(cs.args[0])[:40])))
        if n == 0:
            out.append(inst("NC", "%s:items" % fn.npath, UNDECIDED, fn, None, "no loop or iterator chain over %s recognised" % (markers,)))
    return out


def _src_name(t):
    s = show(strip(t))
    for k in ("clauses", "lits"):
        if k in s:
            return k
    return s[:30]


def _cycle_avoiding(cfg, start, header, avoid, body):
    """can `header` be reached from `start` inside the loop body without passing a block of `avoid`?"""
    seen, stack = set(), [start]
    while stack:
        x = stack.pop()
        if x in seen or x in avoid or x not in body:
            continue
        if x == header:
            return True
        seen.add(x)
        stack.extend(cfg.succ[x])
    return False
