"""VO — index spaces of the variable order (labels vs. levels).

VarOrder keeps two tables: var_to_pos (indexed by a variable *label*, holds a *level*) and
pos_to_var (indexed by a level, holds a label).  Every index into var_to_pos must be a label
(derived from VarLabel::value*), every index into pos_to_var a level (a level parameter, a value
read from var_to_pos, possibly ±1, or a loop position); a VarLabel is built only from a label; a
function that returns a position returns a level.  `new` writes var_to_pos[label_i] = i and
pos_to_var[i] = label_i (mutually inverse by construction); `new_last` gives the fresh variable
label = level = n.
"""
from . import mir
from .base import inst, OK, VIOLATION, UNDECIDED, strip, some_payload
from . import canon
from .facts import CheckerError
from .mir import show

VO = "repr::var_order::VarOrder"
LEVEL_PARAM_HINTS = ("pos", "level")


def dim(fn, t, depth=0):
    """'Label' | 'Level' | None"""
    t = strip(t)
    if depth > 12 or not isinstance(t, tuple) or not t:
        return None
    if t[0] == "call":
        nm = t[1].name
        if nm in ("value", "value_usize") and "VarLabel" in t[1].key():
            return "Label"
        if nm in ("index", "index_mut") and len(t[2]) == 2:
            tab = show(strip(t[2][0]))
            if tab.endswith("var_to_pos"):
                return "Level"
            if tab.endswith("pos_to_var"):
                return "Label"
        if nm == "len":
            return "Level"
        if nm == "unwrap" or nm == "last":
            inner = strip(t[2][0])
            if "pos_to_var" in show(inner):
                return "Label"
            return dim(fn, inner, depth + 1)
        if nm == "get" and "VarOrder" in t[1].key():
            return "Level"
        if nm in ("unwrap_or", "unwrap_or_default", "unwrap_or_else") and t[2]:
            return dim(fn, t[2][0], depth + 1)
        if nm in ("position", "rposition", "find") and len(t[2]) == 2:
            # the position of the first item satisfying p, in a range 0..n (or the item itself, for `find` over any range):
            # an index in whatever space p reads its item
            uses, src = _range_item_uses(fn, t)
            if uses is not None and (nm == "find" or strip(src[4][0]) == ("const", "usize", "0")):
                if len(uses) == 1 and "?" not in uses:
                    return set(uses).pop()
            return None
        c = t[1]
        if (c.local or getattr(c, "res_local", False)) and mir.CURRENT is not None and depth < 6:
            # a crate function that returns an index: its own return term says in which space
            gs = [g for g in mir.CURRENT.resolve(c) if g.kind != "Closure" and g.terms.ret is not None]
            if len(gs) == 1 and gs[0] is not fn and _int_like(gs[0]):
                return dim(gs[0], gs[0].terms.ret, depth + 4)
        return None
    if t[0] == "field" and t[2] == "0" and isinstance(t[1], tuple) and t[1][0] == "bin":
        return dim(fn, t[1], depth + 1)
    if t[0] == "field" and t[2] == "0" and isinstance(t[1], tuple) and t[1][0] == "as" and t[1][2] == "Some":
        return dim(fn, t[1][1], depth + 1)          # the payload of an Option<index>
    if t[0] == "bin" and t[1] in ("Add", "AddWithOverflow", "Sub", "SubWithOverflow"):
        a, b = strip(t[2]), strip(t[3])
        if b[0] == "const":
            return dim(fn, a, depth + 1)
        return None
    if t[0] == "param":
        nm = fn.arg_name(t[1]) or ""
        if any(h in nm for h in LEVEL_PARAM_HINTS):
            return "Level"
        return None
    if t[0] == "index":
        tab = show(strip(t[1]))
        if tab.endswith("var_to_pos"):
            return "Level"
        if tab.endswith("pos_to_var"):
            return "Label"
    if t[0] in ("gamma", "phi"):
        ds = {dim(fn, v, depth + 1) for _, v in t[2]}
        return ds.pop() if len(ds) == 1 else None
    if t[0] == "field" and t[2] in ("0", "1") and isinstance(t[1], tuple):
        # a component of an item of `X.enumerate()`: .0 is a position, .1 an element of X
        item = strip(t[1])
        if canon.is_payload(item) and mir.is_call(strip(item[1][1]), "next"):
            it = strip(strip(item[1][1])[2][0])
            if it[0] == "mutref":
                for (h, l), init in fn.terms.mu_init.items():
                    if l == it[1]:
                        src = strip(init)
                        while mir.is_call(src, "into_iter"):
                            src = strip(src[2][0])
                        if mir.is_call(src, "enumerate"):
                            if t[2] == "0":
                                return "Level"
                            return elem_dim(fn, src[2][0], depth + 1)
    return None


def _int_like(g):
    """the function returns an integer or an Option of one"""
    r = g.locals[0]["s"] if g.locals else ""
    return any(h in r for h in ("usize", "u64", "u32"))


def _core(t):
    """t without casts, copies and ± constant"""
    t = strip(t)
    while isinstance(t, tuple) and t:
        if t[0] == "cast":
            t = strip(t[2])
        elif t[0] in ("deref", "copy", "ref"):
            t = strip(t[1])
        elif t[0] == "field" and t[2] == "0" and isinstance(t[1], tuple) and t[1][0] == "bin":
            t = strip(t[1])
        elif t[0] == "bin" and t[1] in ("Add", "AddWithOverflow", "Sub", "SubWithOverflow") and strip(t[3])[0] == "const":
            t = strip(t[2])
        else:
            break
    return t


def _item_uses(clo, item=("param", 2)):
    """the index spaces in which a closure uses its item"""
    uses = set()
    for cs in clo.terms.calls:
        for i_, a in enumerate(cs.args):
            if _core(a) != item:
                continue
            if cs.callee.name in ("new", "new_usize") and "VarLabel" in cs.callee.key():
                uses.add("Label")
            elif cs.callee.name == "var_at_level":
                uses.add("Level")
            elif cs.callee.name in ("index", "index_mut") and i_ == 1:
                tab = show(strip(cs.args[0]))
                uses.add("Label" if tab.endswith("var_to_pos") else ("Level" if tab.endswith("pos_to_var") else "?"))
    return uses


def _range_item_uses(fn, t):
    """for `range.position(p)` / `range.find(p)`: (spaces in which p uses its item, the Range term) or (None, None)"""
    clo = canon.closure_fn(mir.CURRENT, t[2][1])[0] if mir.CURRENT is not None else None
    src = strip(t[2][0])
    if src[0] == "mutref" and len(t) > 3 and t[3]:
        src = strip(fn.terms.state_in.get(t[3][0], {}).get(src[1]) or fn.terms.state_out.get(t[3][0], {}).get(src[1]) or src)
    if src[0] == "mut" and len(src) > 3:      # the receiver as the call left it: look at what it was
        src = strip(src[3])
    while mir.is_call(src, "into_iter") or mir.is_call(src, "iter"):
        src = strip(src[2][0])
    if clo is not None and src[0] == "agg" and (src[2] or "").endswith("Range"):
        return _item_uses(clo), src
    return None, None


def elem_dim(fn, t, depth=0):
    """dimension of the elements an iterator term yields"""
    t = strip(t)
    if depth > 12 or not isinstance(t, tuple) or not t:
        return None
    if mir.is_call(t, "map") and len(t[2]) == 2:
        prog = mir.CURRENT
        r = canon.apply_closure(prog, t[2][1], ("elem",)) if prog is not None else None
        if r is not None:
            r = strip(r)
            while isinstance(r, tuple) and r and r[0] == "cast":
                r = strip(r[2])
            if mir.is_call(r, "value") or mir.is_call(r, "value_usize"):
                return "Label"
        return None
    if t[0] == "call" and t[1].name in ("iter", "into_iter", "copied", "cloned", "rev") and t[2]:
        return elem_dim(fn, t[2][0], depth + 1)
    return None


def run(prog):
    out = []
    n = 0
    seen = {}
    for fn in prog.lib_fns:
        if fn.impl_self != VO and not (fn.parent or "").startswith(VO):
            continue
        if fn.name.startswith("test") or not any(b["term"]["k"] == "call" for b in fn.blocks):
            continue
        te = fn.terms
        for cs in te.calls:
            if cs.callee.name in ("index", "index_mut") and len(cs.args) == 2:
                tab = show(strip(cs.args[0]))
                which = "var_to_pos" if tab.endswith("var_to_pos") else ("pos_to_var" if tab.endswith("pos_to_var") else None)
                if not which:
                    continue
                d = dim(fn, cs.args[1])
                want = "Label" if which == "var_to_pos" else "Level"
                key = "%s:%s[..]" % (fn.npath, which)
                seen[key] = seen.get(key, 0) + 1
                if seen[key] > 1:
                    key += "#%d" % seen[key]
                n += 1
                if d is None:
                    out.append(inst("VO", key, UNDECIDED, fn, cs.line, "index %s not classified" % show(cs.args[1])[:60]))
                else:
                    out.append(inst("VO", key, OK if d == want else VIOLATION, fn, cs.line,
                                    "%s indexed by a %s" % (which, d) if d == want else
                                    "%s is indexed by a %s (%s) but is a table over %ss: the order's two maps are confused "
                                    "(only self-inverse orders such as the linear one hide this)" % (which, d, show(cs.args[1])[:50], want)))
            if cs.callee.name in ("new", "new_usize") and "VarLabel" in cs.callee.key() and cs.args and fn.name != "new_last":
                d = dim(fn, cs.args[0])
                if d is None:
                    continue
                key = "%s:VarLabel::new" % fn.npath
                seen[key] = seen.get(key, 0) + 1
                if seen[key] > 1:
                    key += "#%d" % seen[key]
                n += 1
                out.append(inst("VO", key, OK if d == "Label" else VIOLATION, fn, cs.line,
                                "label built from a Label" if d == "Label" else
                                "a VarLabel is built from a level (%s): levels and labels coincide only for self-inverse orders"
                                % show(cs.args[0])[:60]))
        if fn.name == "get" and fn.impl_self == VO:
            d = dim(fn, te.ret)
            n += 1
            out.append(inst("VO", "%s:return" % fn.npath, OK if d == "Level" else (UNDECIDED if d is None else VIOLATION), fn, None,
                            "get(var) returns a level" if d == "Level" else "get(var) returns a %s" % d))
    # VarOrder::new: the two writes are mutually inverse by construction
    fn = prog.find1(name="new", self_adt=VO, unit="rsdd-lib")
    te = fn.terms
    errs = []
    st = [s for s in te.stores if s[1][0] in ("index",) or (s[1][0] == "call" and s[1][1].name == "index_mut")]
    pushes = [cs for cs in te.calls if cs.callee.name == "push"]
    ok_store = False
    loopvar = None
    enum_item = None
    for (bb, pt, val, line) in st:
        idx = pt[2] if pt[0] == "index" else pt[2][1]
        # var_to_pos[order[i].value()] = i  with the same i on both sides
        v = strip(val)
        if dim(fn, idx) == "Label" and any(x[0] == "index" and strip(x[2]) == v for x in mir.subterms(idx)):
            ok_store = True
            loopvar = v
        # enumerate form: for (pos, label) in order.iter().enumerate() { var_to_pos[label.value()] = pos; .. }
        if v[0] == "field" and v[2] == "0" and "next(" in show(v[1]) and dim(fn, idx) == "Label" and \
                any(x[0] == "field" and x[2] == "1" and x[1] == v[1] for x in mir.subterms(idx)):
            ok_store = True
            enum_item = v[1]
    if enum_item is not None:
        ok_push = any(any(x[0] == "field" and x[2] == "1" and x[1] == enum_item for x in mir.subterms(cs.args[1]))
                      for cs in pushes if len(cs.args) == 2)
    else:
      ok_push = any(dim(fn, cs.args[1]) == "Label" and (loopvar is None or any(
        x[0] == "index" and strip(x[2]) == loopvar for x in mir.subterms(cs.args[1]))) for cs in pushes if len(cs.args) == 2)
    # both tables written by indexed stores (`vec![0; n]` then `tab[k] = v`): which table a store goes to is read off the
    # VarOrder literal, and each store is typed — var_to_pos[Label] = Level, pos_to_var[Level] = Label
    r_ = strip(te.ret)
    tabs_ = {}
    if r_[0] == "agg" and len(r_) > 5 and r_[5]:
        for nm_, op_ in zip(r_[5], r_[4]):
            o_ = strip(op_)
            if nm_ in ("var_to_pos", "pos_to_var") and o_[0] in ("mu", "local", "mutref"):
                tabs_[o_[2] if o_[0] == "mu" else o_[1]] = nm_
    for (bb, pt, val, line) in st:
        recv = strip(pt[1] if pt[0] == "index" else pt[2][0])
        while isinstance(recv, tuple) and recv and recv[0] in ("ref", "deref"):
            recv = strip(recv[1])
        which_ = None
        for x in [recv] + list(mir.subterms(recv)):
            if isinstance(x, tuple) and len(x) >= 2 and x[0] in ("mutref", "local", "mu") and (x[2] if x[0] == "mu" else x[1]) in tabs_:
                which_ = tabs_[x[2] if x[0] == "mu" else x[1]]
        if which_ != "pos_to_var":
            continue
        idx_ = pt[2] if pt[0] == "index" else pt[2][1]
        di, dv = dim(fn, idx_), dim(fn, val)
        if di == "Level" and dv == "Label":
            ok_push = True
        elif di == "Label" and dv == "Level":
            errs.append("pos_to_var is written at a label with a position (pos_to_var[label_i] = i): it becomes a copy of "
                        "var_to_pos instead of its inverse, and var_at_level returns positions")
            ok_push = True
    if not ok_store:
        swapped = [s_ for s_ in st if dim(fn, (s_[1][2] if s_[1][0] == "index" else s_[1][2][1])) != "Label" and dim(fn, s_[2]) == "Label"]
        errs.append("var_to_pos is written at a position with a label (var_to_pos[i] = order[i]): it becomes a copy of "
                    "pos_to_var instead of its inverse" if swapped else "?var_to_pos[label_i] = i not found")
    if not ok_push:
        errs.append("?pos_to_var.push(label_i) not found")
    out.append(inst("VO", "%s:inverse-by-construction" % fn.npath, VIOLATION if errs else OK, fn, None,
                    "; ".join(errs) if errs else "var_to_pos[order[i]] = i and pos_to_var[i] = order[i]"))
    # new_last: the fresh variable is numbered by the *count* of variables (label = level = n)
    fn = prog.find1(name="new_last", self_adt=VO, unit="rsdd-lib")
    te = fn.terms
    errs = []
    pushes = [cs for cs in te.calls if cs.callee.name == "push" and len(cs.args) == 2]
    tabs = sorted(show(strip(cs.args[0]))[-10:] for cs in pushes)
    if tabs != ["pos_to_var", "var_to_pos"]:
        errs.append("expected one push to each table, found %s" % tabs)

    def is_count(t, depth=2):
        t = strip(t)
        if mir.is_call(t, "len") and show(strip(t[2][0])).endswith(("pos_to_var", "var_to_pos")):
            return True
        if depth and mir.is_call(t) and t[1].local:
            from .base import expand
            e = expand(t)          # an accessor (`self.num_vars()`) whose body is the table's length
            return e is not None and is_count(e, depth - 1)
        return False
    for cs in pushes:
        if not is_count(cs.args[1]):
            errs.append("%s is extended with %s, not with the number of variables" % (show(strip(cs.args[0]))[-10:], show(cs.args[1])[:50]))
    r = strip(te.ret)
    if not (mir.is_call(r, "new") and is_count(r[2][0])):
        errs.append("the fresh label is %s, not the number of variables" % show(r)[:60])
    out.append(inst("VO", "%s:fresh-is-count" % fn.npath, VIOLATION if errs else OK, fn, None,
                    "; ".join(errs) if errs else "fresh variable: label = level = number of variables so far"))
    out += label_order(prog)
    out += level_arguments(prog)
    out += [force_permutation(prog)]
    out += order_selection(prog)
    out += table_iterations(prog)
    if n < 3:
        # accessors (`get`, `var_at_level`) may legitimately absorb most direct table accesses; fewer than three means the
        # two tables themselves were not found
        raise CheckerError("VO: only %d table accesses recognised" % n)
    return out


ORD_OPS = ("lt", "le", "gt", "ge", "cmp", "partial_cmp", "max", "min", "clamp")


def level_arguments(prog):
    """a parameter called level/pos of a crate function is a *level* of the variable order (it ends up in var_at_level
    or in pos_to_var): every call site hands it a level — a constant start, the callee's own level ± 1, a value read
    from var_to_pos — never a label-space index (a position in 0..num_vars found by looking at VarLabel(v))."""
    out, seen = [], {}
    for fn in prog.lib_fns:
        if "::test" in fn.npath or fn.name.startswith("test") or not any(b["term"]["k"] == "call" for b in fn.blocks):
            continue
        for cs in fn.terms.calls:
            c = cs.callee
            if not (c.local or getattr(c, "res_local", False)) or cs.exp:
                continue
            gs = [g for g in prog.resolve(c) if g.kind != "Closure"]
            if not gs:
                continue
            g = gs[0]
            for i, a in enumerate(cs.args):
                nm = g.arg_name(i + 1) or ""
                if nm not in ("level", "lvl", "cur_level", "start_level") and not (nm == "pos" and g.impl_self == VO):
                    continue
                if not any(h in (g.locals[i + 1]["s"] if i + 1 < len(g.locals) else "") for h in ("usize", "u64", "u32")):
                    continue
                d = dim(fn, a)
                a0 = strip(a)
                if d is None and a0[0] != "const":
                    continue
                key = "%s:level-arg:%s" % (fn.npath, g.name)
                seen[key] = seen.get(key, 0) + 1
                if seen[key] > 1:
                    key += "#%d" % seen[key]
                out.append(inst("VO", key, VIOLATION if d == "Label" else OK, fn, cs.line,
                                "`%s` of %s is given %s, an index in *label* space: the callee uses it as a level of the variable "
                                "order, and the two coincide only under the identity order" % (nm, g.name, show(a)[:60]) if d == "Label"
                                else "`%s` of %s is given a %s" % (nm, g.name, d or "constant")))
    # the converse: an argument whose space is known, handed to a crate function that uses the parameter in the other
    # space (whatever the parameter is called): `first_unset_from(level)` scanning `VarLabel::new(i)` for i in level..n
    for fn in prog.lib_fns:
        if "::test" in fn.npath or fn.name.startswith("test") or not any(b["term"]["k"] == "call" for b in fn.blocks):
            continue
        for cs in fn.terms.calls:
            c = cs.callee
            if not (c.local or getattr(c, "res_local", False)) or cs.exp:
                continue
            gs = [g for g in prog.resolve(c) if g.kind != "Closure"]
            if len(gs) != 1 or gs[0] is fn:
                continue
            g = gs[0]
            for i, a in enumerate(cs.args):
                d = dim(fn, a)
                sa = show(a)
                if d is None or "next(" in sa or "len(" in sa:
                    # positions of an enumeration and lengths are levels only inside the order's own code
                    continue
                uses = param_uses(prog, g, i + 1)
                if not uses or "?" in uses:
                    continue
                key = "%s:arg-space:%s#%s" % (fn.npath, g.name, g.arg_name(i + 1) or i + 1)
                seen[key] = seen.get(key, 0) + 1
                if seen[key] > 1:
                    key += "#%d" % seen[key]
                bad = d not in uses
                out.append(inst("VO", key, VIOLATION if bad else OK, fn, cs.line,
                                "%s is given %s, a %s, but uses that parameter as a %s (%s): the two index spaces coincide only "
                                "under the identity order" % (g.name, show(a)[:50], d.lower(), "/".join(sorted(uses)).lower(),
                                                              "a range over it feeds VarLabel::new" if "Label" in uses else "it reaches var_at_level / pos_to_var")
                                if bad else "%s uses its parameter as a %s and is given one" % (g.name, d.lower())))
    return out


_PU = {}


def param_uses(prog, g, i, depth=0):
    """the index spaces in which crate function g uses its integer parameter i: directly, ± a constant, as the start
    of a range whose items a closure uses, or handed on to another crate function"""
    k = (id(prog), g.npath, i)
    if k in _PU:
        return _PU[k]
    _PU[k] = set()
    uses = set()
    if i >= len(g.locals) or not any(h in g.locals[i]["s"] for h in ("usize", "u64", "u32")) or "&" in g.locals[i]["s"]:
        return uses
    te = g.terms
    me = ("param", i)
    for cs in te.calls:
        for j, a in enumerate(cs.args):
            if _core(a) != me:
                continue
            nm = cs.callee.name
            if nm in ("new", "new_usize") and "VarLabel" in cs.callee.key():
                uses.add("Label")
            elif nm == "var_at_level":
                uses.add("Level")
            elif nm in ("index", "index_mut") and j == 1:
                tab = show(strip(cs.args[0]))
                if tab.endswith("var_to_pos"):
                    uses.add("Label")
                elif tab.endswith("pos_to_var"):
                    uses.add("Level")
            elif (cs.callee.local or getattr(cs.callee, "res_local", False)) and depth < 3:
                hs = [h for h in prog.resolve(cs.callee) if h.kind != "Closure"]
                if len(hs) == 1 and hs[0] is not g:
                    uses |= param_uses(prog, hs[0], j + 1, depth + 1)
        if cs.callee.name in ("find", "position", "rposition", "any", "all", "filter", "map", "for_each", "take_while", "skip_while") \
                and len(cs.args) == 2:
            u, src = _range_item_uses(g, cs.term)
            if u and src is not None and _core(src[4][0]) == me:
                uses |= u
    _PU[k] = uses
    return uses


def label_order(prog):
    """The numeric order of variable *labels* carries no meaning for a diagram: a BDD is ordered by the
    VarOrder's levels, an SDD by vtree positions.  Ordering comparisons of VarLabels (the derived
    PartialOrd/Ord operators, or integer comparisons of two label values) are therefore allowed only inside
    the Ord/PartialOrd impls that give containers a total order for sorting; anywhere else they decide
    something from label numbering, which is right only for the identity order / identity leaf labelling."""
    out, control = [], 0
    for fn in prog.lib_fns:
        if fn.name.startswith("test") or "::test" in fn.npath:
            continue
        in_ord_impl = (fn.impl_trait or "") in ("std::cmp::Ord", "std::cmp::PartialOrd")
        bad = []
        for b in fn.blocks:
            t = b["term"]
            if t["k"] != "call":
                continue
            c = t.get("fn") or {}
            nm = (c.get("def") or "").split("::")[-1]
            if nm in ORD_OPS and (c.get("trait") in ("std::cmp::Ord", "std::cmp::PartialOrd")) and \
                    (c.get("targs") or [None])[0] in ("repr::var_label::VarLabel", "&repr::var_label::VarLabel"):
                if in_ord_impl:
                    control += 1
                else:
                    bad.append("line %d: VarLabel::%s" % (t.get("line") or 0, nm))
        if not in_ord_impl and any(bk["term"]["k"] == "call" for bk in fn.blocks):
            te = fn.terms
            terms = [c for (c, _) in te.switch_term.values()] + [a for cs in te.calls for a in cs.args] + [te.ret] + \
                    [v for (_, _, v, _) in te.stores]
            seen = set()
            for t in terms:
                for x in mir.subterms(t):
                    if x[0] == "bin" and x[1] in ("Lt", "Le", "Gt", "Ge") and show(x) not in seen:
                        seen.add(show(x))
                        if dim(fn, x[2]) == "Label" and dim(fn, x[3]) == "Label" and \
                                _direct_label(x[2]) and _direct_label(x[3]):
                            bad.append("%s" % show(x)[:80])
        if bad:
            out.append(inst("VO", "%s:label-order" % fn.npath, VIOLATION, fn, None,
                            "ordering comparison of variable labels (%s): the order of variables is given by the "
                            "VarOrder's levels / the vtree's positions, label numbering agrees with it only for the "
                            "identity order or identity leaf labelling" % "; ".join(bad[:3])))
    if control < 3:
        raise CheckerError("VO label-order: the matcher recognised only %d VarLabel comparisons inside the derived "
                           "Ord/PartialOrd impls (positive control, expected >= 3)" % control)
    out.append(inst("VO", "label-order:none-outside-ord-impls", OK, None, None,
                    "no ordering comparison of VarLabels outside Ord/PartialOrd impls (%d inside, positive control)" % control,
                    loc="src/repr/var_label.rs:1"))
    return out


def _direct_label(t):
    t = strip(t)
    while isinstance(t, tuple) and t and t[0] == "cast":
        t = strip(t[1])
    return isinstance(t, tuple) and t and t[0] == "call" and t[1].name in ("value", "value_usize")



DROPPING = ("filter", "filter_map", "take", "take_while", "skip", "skip_while", "step_by", "dedup", "dedup_by", "dedup_by_key",
            "retain", "truncate", "pop", "remove", "swap_remove", "drain", "flat_map", "flatten", "chunks", "windows", "nth", "last",
            "min_by", "max_by", "find", "position")


def force_permutation(prog):
    """Cnf::force_order re-sorts *all* variables in every round: the list of (centre of gravity, variable) pairs has one
    entry per variable (built from a vector pushed num_vars times, zipped with 0..l), is sorted in place and turned back
    into positions by enumerate.  Sorting and enumerating keep it a permutation; any adaptor that can drop or repeat
    entries on the way (filter, take, skip, dedup, ...) yields a `VarOrder` that lists one variable twice and omits another."""
    fn = prog.find1(name="force_order", self_adt="repr::cnf::Cnf", unit="rsdd-lib")
    te = fn.terms
    # the round may be split over private helpers of Cnf (force_update, average_cogs): all of them are read
    bodies = [g for g in canon.local_bodies(prog, fn, depth=2) if g.name not in ("center_of_gravity", "average_span")]
    calls = [cs for g in bodies for cs in g.terms.calls]
    names = [cs.callee.name for cs in calls]
    need = [n for n in ("enumerate", "collect") if n not in names] + \
           ([] if any(n.startswith("sort") for n in names) else ["sort*"])
    if need:
        return inst("VO", "%s:permutation-preserved" % fn.npath, UNDECIDED, fn, None,
                    "pipeline stages %s of the re-sort not found" % need)
    bad = [cs for cs in calls if cs.callee.name in DROPPING and
           ("iter" in cs.callee.key().lower() or "Vec" in cs.callee.key() or "slice" in cs.callee.key())]
    return inst("VO", "%s:permutation-preserved" % fn.npath, VIOLATION if bad else OK, fn, bad[0].line if bad else None,
                ("the re-sort pipeline calls %s (line %d): entries can be dropped, so the positions written back are no longer a "
                 "permutation of the variables (a variable that occurs in no clause keeps a stale position that collides)"
                 % (bad[0].callee.name, bad[0].line)) if bad else
                "zip(0..l) → sort → map → enumerate: every variable is re-positioned in every round")



def order_selection(prog):
    """VarOrder::first / sort / first_essential choose by *level*: the operand whose top variable comes earlier in the
    order is first, an operand without a top variable (a constant) is last.  The bodies are interpreted over the
    abstract levels {none, 0, 1} of the two operands (every path, branch tests on `var()` and on the level comparison
    evaluated), and the result is compared with the definition; ties may go either way."""
    out = []
    for name in ("first", "sort"):
        fn = prog.find1(name=name, self_adt=VO, unit="rsdd-lib")
        te, cfg = fn.terms, fn.cfg
        A, B = ("param", 2), ("param", 3)

        def lvl(t, env):
            t = strip(t)
            s = show(t)
            if mir.is_call(t, "get") and "var(arg2)" in s:
                return env[0]
            if mir.is_call(t, "get") and "var(arg3)" in s:
                return env[1]
            return None

        def cond(c, env):
            c = strip(c)
            s = show(c)
            if s == "discr(var(arg2))":
                return 0 if env[0] is None else 1
            if s == "discr(var(arg3))":
                return 0 if env[1] is None else 1
            if c[0] == "bin" and c[1] in ("Lt", "Le", "Gt", "Ge", "Eq", "Ne"):
                x, y = lvl(c[2], env), lvl(c[3], env)
                if x is None or y is None:
                    return None
                return int({"Lt": x < y, "Le": x <= y, "Gt": x > y, "Ge": x >= y, "Eq": x == y, "Ne": x != y}[c[1]])
            return None

        def result(env):
            res = set()

            def go(b, prev, seen):
                t = fn.blocks[b]["term"]
                if t["k"] == "return":
                    r = strip(te.ret)
                    if r[0] == "phi":
                        # the alternative that flowed in along this path
                        chain = prev
                        pick = None
                        for pb, v in r[2]:
                            pbn = int(str(pb).replace("bb", "")) if not isinstance(pb, int) else pb
                            if pbn in chain:
                                pick = strip(v)
                        r = pick
                    if r is not None and r[0] == "gamma":
                        v = cond(r[1], env)
                        if v is not None:
                            for lab, x in r[2]:
                                if lab == str(v) or (isinstance(lab, tuple) and lab[0] == "not" and str(v) not in lab[1]):
                                    r = strip(x)
                                    break
                    res.add(repr(r))
                    return
                if t["k"] == "switch":
                    v = cond(te.switch_term[b][0], env)
                    if v is None:
                        nxts = [x for _, x in t["targets"]] + [t["otherwise"]]
                    else:
                        tg = [x for vv, x in t["targets"] if int(vv) == v]
                        nxts = [tg[0]] if tg else [t["otherwise"]]
                else:
                    nxts = list(cfg.succ[b])
                for s_ in nxts:
                    if fn.blocks[s_]["term"]["k"] == "unreachable" or s_ in seen:
                        continue
                    go(s_, prev + [b], seen | {s_})
            go(0, [], {0})
            return res
        errs = []
        n = 0
        for la in (None, 0, 1):
            for lb in (None, 0, 1):
                if la is None and lb is None:
                    continue
                rs = result((la, lb))
                n += 1
                ia, ib = (9 if la is None else la), (9 if lb is None else lb)
                want = []
                if ia <= ib:
                    want.append((A, B))
                if ib <= ia:
                    want.append((B, A))
                if name == "first":
                    good = {repr(w[0]) for w in want}
                else:
                    good = {repr(("agg", "tuple", None, None, (w[0], w[1]), ())) for w in want}
                ok = bool(rs) and all(_same(r, good, name) for r in rs)
                if not ok and any(("Callee(" in r or "'gamma'" in r or "'phi'" in r) for r in rs):
                    # the result on this path is not one of the operands but a term the evaluator cannot reduce (a private
                    # helper decides, or the function delegates to a sibling): nothing located, nothing reported
                    errs.append("?for levels (a: %s, b: %s) the result is %s, which is not evaluated here" % (
                        "none" if la is None else la, "none" if lb is None else lb, sorted(x[:40] for x in rs)))
                elif not ok:
                    errs.append("for levels (a: %s, b: %s) it returns %s" % ("none" if la is None else la, "none" if lb is None else lb,
                                                                             sorted(x[:60] for x in rs)))
        errs.sort(key=lambda e: e.startswith("?"))      # a definite mismatch first
        out.append(inst("VO", "%s:by-level" % fn.npath, VIOLATION if errs else OK, fn, None,
                        (errs[0] if errs[0].startswith("?") else
                         "%s; the operand whose top variable has the smaller level must come first (constants last)" % errs[0])
                        if errs else "%d level combinations: earlier level first, constants last" % n))
    fe = prog.find1(name="first_essential", self_adt=VO, unit="rsdd-lib")
    r = strip(fe.terms.ret)
    inner = some_payload(prog, r)
    ok = inner is not None and show(inner) in ("var(first(arg1, first(arg1, arg2, arg3), arg4))",
                                               "var(first(arg1, arg2, first(arg1, arg3, arg4)))")
    verdict, why = (OK, "top variable of first(first(f, g), h)") if ok else \
        (VIOLATION, "first_essential is %s, expected the top variable of first(first(f,g),h)" % show(r)[:80])
    if not ok:
        # the selection written as a chain over the three operands: `[a, b, c].into_iter().filter_map(var).reduce(|x, y| ..)`
        # (or min_by_key / min_by / fold).  What matters is what the candidates are ranked by: the position of the label
        # in the order (`get(label)` / `var_to_pos[label]`), not the label's number and not the inverse table.
        fe_w = prog.default_args_worker(fe) if hasattr(prog, "default_args_worker") else fe
        body = fe_w if fe_w is not fe else fe
        rr = strip(body.terms.ret) if body.terms.ret is not None else r
        sel = [x for x in [rr] + list(mir.subterms(rr)) if mir.is_call(x) and x[1].name in ("reduce", "min_by_key", "min_by", "fold", "max_by_key", "max_by")]
        if sel and "arg2" in show(rr) and "arg3" in show(rr) and "arg4" in show(rr):
            kids = [g for g in prog.lib_fns if g.npath.startswith(body.npath + "::{closure")]
            names, fields = set(), set()
            for g in kids:
                for cs in g.terms.calls:
                    if "VarOrder" in cs.callee.key() or cs.callee.name in ("value", "value_usize", "index", "cmp", "partial_cmp"):
                        names.add(cs.callee.name)
                        for a in cs.args:
                            for y in [a] + list(mir.subterms(a)) if isinstance(a, tuple) else []:
                                if isinstance(y, tuple) and y and y[0] == "field" and y[2] in ("var_to_pos", "pos_to_var"):
                                    fields.add(y[2])
            by_pos = ("get" in names or "var_to_pos" in fields) and "pos_to_var" not in fields
            if sel[0][1].name.startswith("max"):
                verdict, why = VIOLATION, "first_essential selects with %s: the *last* of the three top variables" % sel[0][1].name
            elif by_pos:
                verdict, why = OK, "the three top variables are ranked by their position in the order (%s over [f, g, h])" % sel[0][1].name
            elif "pos_to_var" in fields:
                verdict, why = VIOLATION, ("first_essential ranks the candidates through pos_to_var, the table from positions to labels, "
                                           "indexed by a label: that is the inverse permutation, not the position")
            elif names & {"value", "value_usize"}:
                verdict, why = VIOLATION, "first_essential ranks the candidates by the number of their label, not by their position in the order"
            else:
                verdict, why = UNDECIDED, "?first_essential selects with %s over the operands; what it ranks by was not recognised" % sel[0][1].name
    out.append(inst("VO", "%s:by-level" % fe.npath, verdict, fe, None, why))
    return out


def _same(r, good, name):
    if name == "first":
        return r in good
    # tuples: compare the two components
    for g in good:
        if _components(r) == _components(g):
            return True
    return False


def _components(rep):
    import re as _re
    return tuple(_re.findall(r"\('param', (\d)\)", rep))



def table_iterations(prog):
    """whole-table iterations: the elements of pos_to_var are labels, those of var_to_pos are levels; an iterator that
    turns the elements into VarLabels (in_order_iter, reverse_in_order_iter, between_iter) must walk pos_to_var"""
    out = []
    n = 0
    for fn in prog.lib_fns:
        if fn.impl_self != VO or not any(b["term"]["k"] == "call" for b in fn.blocks):
            continue
        for cs in fn.terms.calls:
            if cs.callee.name != "map" or len(cs.args) != 2:
                continue
            src = strip(cs.args[0])
            while isinstance(src, tuple) and src and src[0] == "call" and src[1].name in (
                    "iter", "skip", "take", "rev", "into_iter", "deref", "cloned", "copied",
                    # a range of the table taken as a slice: `tab[a..b]`, `tab.get(a..b).unwrap_or(&[])`
                    "index", "get", "unwrap_or", "unwrap_or_default", "unwrap", "expect", "as_slice", "flatten") and src[2]:
                src = strip(src[2][0])
            tab = show(src)
            which = "var_to_pos" if tab.endswith("var_to_pos") else ("pos_to_var" if tab.endswith("pos_to_var") else None)
            clo = strip(cs.args[1])
            if which is None:
                continue
            if isinstance(clo, tuple) and clo and clo[0] == "fnref":
                # a function item as the callback: `.map(VarLabel::new_usize)`
                if clo[1].name not in ("new", "new_usize") or "VarLabel" not in (clo[1].key() or ""):
                    continue
            else:
                if not (isinstance(clo, tuple) and clo[0] == "agg" and clo[1] == "closure"):
                    continue
                kids = [g for g in prog.lib_fns if g.npath == clo[2]]
                if not kids:
                    continue
                r = strip(kids[0].terms.ret)
                if not (mir.is_call(r, "new") or mir.is_call(r, "new_usize")) or "VarLabel" not in r[1].key():
                    continue
            n += 1
            ok = which == "pos_to_var"
            out.append(inst("VO", "%s:iter-elements" % fn.npath, OK if ok else VIOLATION, fn, cs.line,
                            "labels are read from pos_to_var" if ok else
                            "the elements of var_to_pos are levels, but they are turned into VarLabels: the iterator yields the "
                            "inverse permutation of the order (equal only for self-inverse orders)"))
    if n < 3:
        # fewer iterators than counted by hand: say so as an instance of this sub-rule (the properties that select it fail
        # closed) instead of taking the whole family down
        out.append(inst("VO", "%s:iter-elements" % VO, UNDECIDED, None, None,
                        "? expected >= 3 table iterations producing labels, found %d" % n))
    return out
