"""DTR — dtree construction: variable sets and cutsets follow their definitions.

DTR1  every tree produced by `balanced` (whose inner nodes start with empty variable sets) has its
      variable sets initialised (`init_vars`) before it is used (pushed back, cut, returned).
DTR2  init_vars: vars(node) = vars(l) ∪ vars(r) after both children were initialised; vars(leaf)
      collects the label of every literal of the clause.
DTR3  gen_cutset: cutset(node) = (vars(l) ∩ vars(r)) \\ ancestors, children receive ancestors ∪
      cutset(node); cutset(leaf) = vars(leaf) \\ ancestors.
"""
from . import mir
from .base import inst, OK, VIOLATION, UNDECIDED, strip, P, C, VF, ANY, T, match
from .facts import CheckerError
from .mir import show

D = "repr::dtree::DTree"


def has_mut(t, name):
    return any(x[0] == "mut" and x[2].name == name for x in mir.subterms(t))


def run(prog):
    out = []
    fn = prog.find1(name="from_cnf", self_adt=D, unit="rsdd-lib")
    te = fn.terms
    bal = [cs for cs in te.calls if cs.callee.name == "balanced"]
    if len(bal) < 2:
        raise CheckerError("DTR1: expected two compositions in DTree::from_cnf")
    # uses of a balanced(..) result: as argument of push / gen_cutset / the return value
    uses = []
    for cs in te.calls:
        if cs.callee.name in ("push", "gen_cutset") or \
                ((cs.callee.local or getattr(cs.callee, "res_local", False)) and cs.callee.name not in ("balanced", "init_vars", "get_vars")):
            # ... or handed to a private helper that files it (a bucket, a finished list)
            for a in cs.args:
                if any(mir.is_call(x, "balanced") for x in mir.subterms(a)) or \
                        (a[0] == "mutref" and any(mir.is_call(x, "balanced") for x in mir.subterms(te.state_in.get(cs.bb, {}).get(a[1], ())))):
                    v = a if a[0] != "mutref" else te.state_in.get(cs.bb, {}).get(a[1])
                    uses.append((cs.callee.name, v, cs.line))
    uses.append(("return", te.ret, None))
    # does `balanced` itself give its new inner nodes their variable sets (vars = vars(l) ∪ vars(r) at construction)?
    self_init = False
    bfn = [g for g in prog.lib_fns if g.name == "balanced" and g.impl_self == D]
    if len(bfn) == 1:
        nodes = []
        for bb_, agg, line_ in bfn[0].terms.aggs:
            if agg[1] == "adt" and agg[3] == "Node" and len(agg) > 5 and "vars" in agg[5]:
                vv = strip(agg[4][agg[5].index("vars")])
                nodes.append(mir.is_call(vv, "union") and sum(1 for x in mir.subterms(vv) if mir.is_call(x, "get_vars")) >= 2)
        self_init = bool(nodes) and all(nodes)      # every node `balanced` makes, not just the two-tree shortcut
    k = 0
    for what, v, line in uses:
        if not any(mir.is_call(x, "balanced") for x in mir.subterms(v)):
            continue
        k += 1
        ok = has_mut(v, "init_vars") or self_init
        out.append(inst("DTR", "%s:DTR1:%s" % (fn.npath, what), OK if ok else VIOLATION, fn, line,
                        ("composition is initialised (init_vars) before %s" % what if not self_init else
                         "`balanced` builds every inner node with vars = vars(l) ∪ vars(r)") if ok else
                        "a tree composed by `balanced` reaches %s without init_vars: its new inner nodes keep an empty variable "
                        "set instead of the union of their children's (disconnected components, empty clauses)" % what))
    if k < 2:
        raise CheckerError("DTR1: uses of composed trees not recognised")
    # DTR2
    iv = prog.find1(name="init_vars", self_adt=D, unit="rsdd-lib")
    te = iv.terms
    errs = []
    L, R = VF(1, "Node", "l"), VF(1, "Node", "r")
    st = [s for s in te.stores if "vars" in show(s[1])]
    want = C("VarSet::union", C("get_vars", L), C("get_vars", R), comm=True)
    if len(st) != 1 or match(want, st[0][2]):
        errs.append("vars(node) is not union(vars(l), vars(r)): %s" % (show(st[0][2])[:80] if st else "no store"))
    rec = [cs for cs in te.calls if cs.callee.name == "init_vars"]
    if len(rec) != 2 or not all(any(iv.cfg.dominates(c.bb, s_[0]) for s_ in st) for c in rec):
        errs.append("children are not both initialised before the union is taken")
    ins = [cs for cs in te.calls if cs.callee.name == "insert" and "VarSet" in cs.callee.key()]
    if len(ins) != 1 or not mir.is_call(strip(ins[0].args[1]), "label"):
        errs.append("vars(leaf) does not collect label(lit) of the clause's literals")
    out.append(inst("DTR", "%s:DTR2" % iv.npath, VIOLATION if errs else OK, iv, None,
                    "; ".join(errs) if errs else "vars(node) = vars(l) ∪ vars(r); vars(leaf) = labels of the clause"))
    # DTR3
    gc = prog.find1(name="gen_cutset", self_adt=D, unit="rsdd-lib")
    te = gc.terms
    errs = []
    inter = C("VarSet::intersect_varset", C("get_vars", L), C("get_vars", R), comm=True)
    mine = C("VarSet::minus", inter, P(2))
    node_st = [s for s in te.stores if "Node).cutset" in show(s[1])]
    leaf_st = [s for s in te.stores if "Leaf).cutset" in show(s[1])]
    if len(node_st) != 1 or match(mine, node_st[0][2]):
        errs.append("cutset(node) is not (vars(l) ∩ vars(r)) \\\\ ancestors: %s" % (show(node_st[0][2])[:80] if node_st else "no store"))
    if len(leaf_st) != 1 or match(C("VarSet::minus", VF(1, "Leaf", "vars"), P(2)), leaf_st[0][2]):
        errs.append("cutset(leaf) is not vars(leaf) \\\\ ancestors")
    rec = [cs for cs in te.calls if cs.callee.name == "gen_cutset"]
    down = C("VarSet::union", P(2), mine, comm=True)
    if len(rec) != 2 or any(match(down, c.args[1]) for c in rec):
        errs.append("children do not receive ancestors ∪ cutset(node)")
    out.append(inst("DTR", "%s:DTR3" % gc.npath, VIOLATION if errs else OK, gc, None,
                    "; ".join(errs) if errs else "cutset(node) = (vars(l) ∩ vars(r)) \\\\ anc; children get anc ∪ cutset; cutset(leaf) = vars \\\\ anc"))
    return out
