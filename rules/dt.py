"""DT — definitional truth tables of derived operators.

Derived operators are straight-line terms over primitive ones (and = ite(f,g,⊥), ...).  The
rule takes the reconstructed return term of each definition and interprets it over the Boolean
algebra for all valuations of its pointer arguments (a function of the quantified variable is
the pair of its cofactors) and compares with the truth table of the operator's *name*.  This
evaluates a source expression over a finite abstract domain; it does not run rsdd.  Any
equivalent definition passes; a body that is not a closed term over the known primitives is
`undecided`.
"""
import itertools
from . import mir
from .base import inst, OK, VIOLATION, UNDECIDED, strip
from .facts import CheckerError
from .mir import show

BB = "builder::BottomUpBuilder"


class Undecided(Exception):
    pass


def ev(t, env, lbl):
    """value = (v1, v0): the Boolean value when the distinguished variable is 1 / 0"""
    t = strip(t)
    if not isinstance(t, tuple):
        raise Undecided("non-term")
    k = t[0]
    if k == "param":
        if t[1] in env:
            return env[t[1]]
        raise Undecided("parameter arg%d is not a pointer operand" % t[1])
    if k == "agg" and t[3] in ("PtrTrue", "PtrFalse"):
        b = t[3] == "PtrTrue"
        return (b, b)
    if k == "call":
        nm = t[1].name
        a = t[2]
        if nm in ("true_ptr", "false_ptr"):
            b = nm == "true_ptr"
            return (b, b)
        if nm in ("neg", "negate"):
            x = ev(a[-1], env, lbl)
            return (not x[0], not x[1])
        if nm in ("and", "or", "iff", "xor") and len(a) >= 2:
            x, y = ev(a[-2], env, lbl), ev(a[-1], env, lbl)
            f = {"and": lambda p, q: p and q, "or": lambda p, q: p or q,
                 "iff": lambda p, q: p == q, "xor": lambda p, q: p != q}[nm]
            return (f(x[0], y[0]), f(x[1], y[1]))
        if nm in ("ite", "ite_helper") and len(a) >= 3:
            c, x, y = ev(a[-3], env, lbl), ev(a[-2], env, lbl), ev(a[-1], env, lbl)
            return (x[0] if c[0] else y[0], x[1] if c[1] else y[1])
        if nm in ("condition", "cond_helper") and len(a) >= 3:
            if lbl is None or a[-2] != lbl:
                raise Undecided("condition on a label other than the operator's label parameter")
            x = ev(a[-3], env, lbl)
            b = a[-1]
            if not (isinstance(b, tuple) and b[0] == "const"):
                raise Undecided("condition value is not a constant")
            v = x[0] if b[2] == "1" else x[1]
            return (v, v)
        if nm == "exists" and len(a) >= 2:
            if lbl is None or a[-1] != lbl:
                raise Undecided("exists on a label other than the operator's label parameter")
            x = ev(a[-2], env, lbl)
            v = x[0] or x[1]
            return (v, v)
        if nm == "var" and len(a) >= 2:
            if lbl is None or a[-2] != lbl:
                raise Undecided("var of a label other than the operator's label parameter")
            b = a[-1]
            if not (isinstance(b, tuple) and b[0] == "const"):
                raise Undecided("var polarity is not a constant")
            p = b[2] == "1"
            return (p, not p)
        raise Undecided("call to %s is not a known primitive" % t[1].key())
    raise Undecided("term %s" % show(t)[:80])


SPECS = {
    # name -> (pointer param positions (MIR arg indices), label param index or None, truth function)
    "and": ((2, 3), None, lambda f, g: f and g),
    "or": ((2, 3), None, lambda f, g: f or g),
    "iff": ((2, 3), None, lambda f, g: f == g),
    "xor": ((2, 3), None, lambda f, g: f != g),
    "ite": ((2, 3, 4), None, lambda f, g, h: g if f else h),
    "negate": ((2,), None, lambda f: not f),
}


def leaves(t):
    if isinstance(t, tuple) and t and t[0] in ("gamma", "phi"):
        out = []
        for _, v in t[2]:
            out += leaves(v)
        return out
    return [t]


def check_def(fn, name):
    te = fn.terms
    key = "%s:truth-table" % fn.npath
    alts = leaves(te.ret)
    decided = 0
    notes = []
    for alt in alts:
        try:
            if name in SPECS:
                pos, _, tf = SPECS[name]
                for vals in itertools.product([False, True], repeat=len(pos)):
                    env = {p: (v, v) for p, v in zip(pos, vals)}
                    got = ev(alt, env, None)
                    want = tf(*vals)
                    if got[0] != want:
                        return inst("DT", key, VIOLATION, fn, None,
                                    "`%s` is defined as %s, which evaluates to %s for %s; %s requires %s"
                                    % (name, show(alt), got[0],
                                       dict(zip(["f", "g", "h"], vals)), name, want))
            elif name == "exists":
                lbl = ("param", 3)
                for f1, f0 in itertools.product([False, True], repeat=2):
                    got = ev(alt, {2: (f1, f0)}, lbl)
                    want = f1 or f0
                    if got != (want, want):
                        return inst("DT", key, VIOLATION, fn, None,
                                    "`exists` is defined as %s: for cofactors (f|v=1, f|v=0) = (%s, %s) it gives %s, "
                                    "∃v.f is %s" % (show(alt), f1, f0, got, want))
            elif name == "compose":
                lbl = ("param", 3)
                # documented definition: ∃v.(g ⇔ v) ∧ f, with g allowed to mention v itself
                for f1, f0, g1, g0 in itertools.product([False, True], repeat=4):
                    got = ev(alt, {2: (f1, f0), 4: (g1, g0)}, lbl)
                    want = (g1 and f1) or ((not g0) and f0)
                    if got != (want, want):
                        return inst("DT", key, VIOLATION, fn, None,
                                    "`compose` is defined as %s: for cofactors (f|v=1, f|v=0, g|v=1, g|v=0) = (%s, %s, %s, %s) "
                                    "it gives %s, ∃v.(g⇔v)∧f is %s" % (show(alt), f1, f0, g1, g0, got, want))
            else:
                raise Undecided("no truth table for %s" % name)
            decided += 1
        except Undecided as e:
            notes.append(str(e))
    if decided == 0:
        return inst("DT", key, UNDECIDED, fn, None, "not a closed term over the known primitives: %s" % "; ".join(notes)[:300])
    return inst("DT", key, OK, fn, None,
                "%s ≡ %s on all valuations (%d of %d return alternatives are closed terms)"
                % (name, show([a for a in alts][-1])[:160], decided, len(alts)))


def run(prog):
    out = []
    # BDD and SDD blanket impls of BottomUpBuilder
    for ptr in ("repr::bdd::BddPtr", "repr::sdd::SddPtr"):
        for name in ("and", "iff", "xor", "exists", "negate", "ite", "or"):
            fns = [f for f in prog.find(name=name, impl_trait=BB, unit="rsdd-lib")
                   if ("BottomUpBuilder<%s>" % ptr) in f.npath]
            if not fns:
                continue
            if len(fns) > 1:
                raise CheckerError("ambiguous definition of %s for %s" % (name, ptr))
            fn = fns[0]
            if name == "ite" and "BddPtr" in ptr:
                continue  # BDD ite is the primitive (ite_helper), C01 says what is not decided
            if name == "and" and "SddPtr" in ptr:
                continue  # SDD and is the primitive apply
            out.append(check_def(fn, name))
    # trait defaults
    for name in ("or", "compose"):
        fn = prog.find1(name=name, in_trait=BB, unit="rsdd-lib")
        out.append(check_def(fn, name))
    # overrides of the provided methods by an implementor must satisfy the same definition
    done = {r["fn"] for r in out}
    for name in ("or", "compose"):
        for fn in prog.find(name=name, impl_trait=BB, unit="rsdd-lib"):
            if fn.npath in done or (name == "or" and not te_is_derived(fn)):
                continue
            out.append(check_def(fn, name))
    return out


def te_is_derived(fn):
    """an `or` that is itself the primitive apply (loops, table lookups) is not a derived operator"""
    return len(fn.blocks) <= 12
