"""DT — definitional truth tables of derived operators.

Derived operators are straight-line terms over primitive ones (and = ite(f,g,⊥), ...).  The
rule takes the reconstructed return term of each definition and interprets it over the Boolean
algebra for all valuations of its pointer arguments (a function of the quantified variable is
the pair of its cofactors) and compares with the truth table of the operator's *name*.  This
evaluates a source expression over a finite abstract domain; it does not run rsdd.  Any
equivalent definition passes; a body that is not a closed term over the known primitives is
`undecided`.
"""
import itertools
from . import mir
from .base import inst, OK, VIOLATION, UNDECIDED, strip
from .facts import CheckerError
from .mir import show

BB = "builder::BottomUpBuilder"


class Undecided(Exception):
    pass


class Infeasible(Exception):
    """the combination of choices made so far cannot occur"""


class NeedChoice(Exception):
    def __init__(self, key, n):
        self.key, self.n = key, n


class Ctx:
    """evaluation context for definitions that are not straight-line: which function's terms are being read (for the
    element stores of vec![..]), the arm chosen at each test the evaluator cannot decide (enumerated by the caller),
    the polarity assumed for a literal operand inside the arm of `match a { Var(l, true) .. Var(l, false) .. }`"""
    def __init__(self, prog, fn, choices, depth=0, frame=""):
        self.prog, self.fn, self.choices, self.depth, self.frame = prog, fn, choices, depth, frame
        self.pol = {}

    def choose(self, cond, n):
        key = (self.frame, show(cond) if isinstance(cond, tuple) and cond and cond[0] != 'phi' else repr(cond))
        if key not in self.choices:
            raise NeedChoice(key, n)
        return self.choices[key]


def _pair(v):
    if isinstance(v, tuple) and len(v) == 2 and isinstance(v[0], bool) and isinstance(v[1], bool):
        return v
    raise Undecided("not a pointer value: %r" % (v,))


def ev(t, env, lbl, ctx=None):
    """value = (v1, v0): the Boolean value when the distinguished variable is 1 / 0"""
    return _pair(_ev(t, env, lbl, ctx))


def _bool_label(lab):
    if lab in ("0", "1"):
        return lab == "1"
    if isinstance(lab, tuple) and lab and lab[0] == "not" and len(lab[1]) == 1 and lab[1][0] in ("0", "1"):
        return lab[1][0] == "0"
    return None


def _ev(t, env, lbl, ctx=None):
    t = strip(t)
    while isinstance(t, tuple) and t and t[0] in ("deref", "ref") and ctx is not None:
        t = strip(t[1])
    if not isinstance(t, tuple):
        raise Undecided("non-term")
    k = t[0]
    if k == "const" and len(t) > 2 and t[1] == "bool" and ctx is not None:
        return str(t[2]) in ("1", "true")
    if ctx is not None:
        if k in ("gamma", "phi"):
            arms = t[2]
            cond = strip(t[1]) if k == "gamma" else ("phi", t[1])
            i = ctx.choose(cond, len(arms))
            lab, v = arms[i]
            # match a { Var(l, true) => .., Var(l, false) => .. }: inside the arm the literal's polarity is known
            if k == "gamma" and isinstance(cond, tuple) and cond[0] == "field" and cond[2] == "1" and isinstance(cond[1], tuple) and \
                    cond[1][0] == "as" and cond[1][2] == "Var" and _bool_label(lab) is not None:
                old = dict(ctx.pol)
                ctx.pol[repr(strip(cond[1][1]))] = _bool_label(lab)
                try:
                    return _ev(v, env, lbl, ctx)
                finally:
                    ctx.pol = old
            return _ev(v, env, lbl, ctx)
        if k == "agg" and t[1] == "tuple":
            comps = []
            for x in t[4]:
                try:
                    comps.append(_ev(x, env, lbl, ctx))
                except Undecided as e_:
                    comps.append(("undecided", str(e_)))     # only an error if this component is the one projected out
            return ("tuple", tuple(comps))
        if k == "field" and isinstance(t[1], tuple) and t[1] and t[1][0] == "as" and t[1][2] == "Var" and t[2] == "0":
            x = strip(t[1][1])
            if repr(x) not in ctx.pol:
                raise Undecided("label of a literal operand whose polarity is not known here")
            v = _pair(_ev(x, env, lbl, ctx))
            return v if ctx.pol[repr(x)] else (not v[0], not v[1])
        std = _std_triple_field(t, env, lbl, ctx)
        if std is not None:
            return std
        if k == "field" and str(t[2]).isdigit():
            v = _ev(t[1], env, lbl, ctx)
            if isinstance(v, tuple) and v and v[0] == "tuple" and int(t[2]) < len(v[1]):
                c_ = v[1][int(t[2])]
                if isinstance(c_, tuple) and len(c_) == 2 and c_[0] == "undecided":
                    raise Undecided(c_[1])
                return c_
            raise Undecided("projection of %s" % show(t)[:60])
        if k == "call":
            nm, a, key = t[1].name, t[2], t[1].key()
            if nm == "new" and "BinarySDD" in key and len(a) == 4:
                L, lo, hi = _pair(_ev(a[0], env, lbl, ctx)), _pair(_ev(a[1], env, lbl, ctx)), _pair(_ev(a[2], env, lbl, ctx))
                return (hi[0] if L[0] else lo[0], hi[1] if L[1] else lo[1])
            if nm == "new" and "SddAnd" in key and len(a) == 2:
                p, s_ = _pair(_ev(a[0], env, lbl, ctx)), _pair(_ev(a[1], env, lbl, ctx))
                return (p[0] and s_[0], p[1] and s_[1])
            if nm == "unique_bdd" and len(a) == 2:
                return _ev(a[1], env, lbl, ctx)
            if nm in ("unique_or", "canonicalize") and len(a) == 3:
                # the element list: vec![e1, e2, ..] is an array stored into a fresh box
                elems = None
                anchors = [x for x in mir.subterms(a[1]) if mir.is_call(x, "new_uninit")]
                for (_, pt, val, _) in ctx.fn.terms.stores:
                    v_ = strip(val)
                    if anchors and any(x in anchors for x in mir.subterms(pt)) and v_[0] == "agg" and v_[1] == "array":
                        elems = v_[4]
                if elems is None:
                    raise Undecided("element list of %s is not a literal vec![..]" % nm)
                vs = [_pair(_ev(e, env, lbl, ctx)) for e in elems]
                return (any(v[0] for v in vs), any(v[1] for v in vs))
            c = t[1]
            if nm not in ("and", "or", "iff", "xor", "ite", "ite_helper", "neg", "negate", "condition", "cond_helper", "exists", "var",
                          "true_ptr", "false_ptr") and (c.local or getattr(c, "res_local", False)) and ctx.depth < 3:
                hs = [h for h in ctx.prog.resolve(c) if "{closure" not in h.npath and h.blocks and h is not ctx.fn]
                if len(hs) == 1 and hs[0].argc == len(a) and hs[0].terms.ret is not None and len(hs[0].blocks) <= 60:
                    h = hs[0]
                    henv = {}
                    for i, x in enumerate(a):
                        try:
                            henv[i + 1] = _ev(x, env, lbl, ctx)
                        except Undecided:
                            pass
                    sub = Ctx(ctx.prog, h, ctx.choices, ctx.depth + 1, ctx.frame + "/" + h.npath.split("::")[-1])
                    return _ev(h.terms.ret, henv, None, sub)
    if k == "param" and ctx is not None and t[1] in env:
        return env[t[1]]
    if k == "param":
        if t[1] in env:
            return env[t[1]]
        raise Undecided("parameter arg%d is not a pointer operand" % t[1])
    if k == "agg" and t[3] in ("PtrTrue", "PtrFalse"):
        b = t[3] == "PtrTrue"
        return (b, b)
    if k == "call":
        nm = t[1].name
        a = t[2]
        if nm in ("true_ptr", "false_ptr"):
            b = nm == "true_ptr"
            return (b, b)
        if nm in ("neg", "negate"):
            x = ev(a[-1], env, lbl, ctx)
            return (not x[0], not x[1])
        if nm in ("and", "or", "iff", "xor") and len(a) >= 2:
            x, y = ev(a[-2], env, lbl, ctx), ev(a[-1], env, lbl, ctx)
            f = {"and": lambda p, q: p and q, "or": lambda p, q: p or q,
                 "iff": lambda p, q: p == q, "xor": lambda p, q: p != q}[nm]
            return (f(x[0], y[0]), f(x[1], y[1]))
        if nm in ("ite", "ite_helper") and len(a) >= 3:
            c, x, y = ev(a[-3], env, lbl, ctx), ev(a[-2], env, lbl, ctx), ev(a[-1], env, lbl, ctx)
            return (x[0] if c[0] else y[0], x[1] if c[1] else y[1])
        if nm in ("condition", "cond_helper") and len(a) >= 3:
            if lbl is None or a[-2] != lbl:
                raise Undecided("condition on a label other than the operator's label parameter")
            x = ev(a[-3], env, lbl, ctx)
            b = a[-1]
            if not (isinstance(b, tuple) and b[0] == "const"):
                raise Undecided("condition value is not a constant")
            v = x[0] if b[2] == "1" else x[1]
            return (v, v)
        if nm == "exists" and len(a) >= 2:
            if lbl is None or a[-1] != lbl:
                raise Undecided("exists on a label other than the operator's label parameter")
            x = ev(a[-2], env, lbl, ctx)
            v = x[0] or x[1]
            return (v, v)
        if nm == "var" and len(a) >= 2:
            if lbl is None or a[-2] != lbl:
                raise Undecided("var of a label other than the operator's label parameter")
            b = a[-1]
            if not (isinstance(b, tuple) and b[0] == "const"):
                raise Undecided("var polarity is not a constant")
            p = b[2] == "1"
            return (p, not p)
        raise Undecided("call to %s is not a known primitive" % t[1].key())
    raise Undecided("term %s" % show(t)[:80])


SPECS = {
    # name -> (pointer param positions (MIR arg indices), label param index or None, truth function)
    "and": ((2, 3), None, lambda f, g: f and g),
    "or": ((2, 3), None, lambda f, g: f or g),
    "iff": ((2, 3), None, lambda f, g: f == g),
    "xor": ((2, 3), None, lambda f, g: f != g),
    "ite": ((2, 3, 4), None, lambda f, g, h: g if f else h),
    "negate": ((2,), None, lambda f: not f),
}


def _std_triple_field(t, env, lbl, ctx):
    """A component of the standard triple `Ite::new(_, f, g, h)`.  ST proves (exhaustively) that the normalisation preserves
    the ite: an `IteChoice {f', g', h'}` satisfies ite(f', g', h') = ite(f, g, h), an `IteComplChoice` its complement, and
    `IteConst(c)` is the ite itself.  Under that contract the components are *any* three values with the right ite: they are
    enumerated (per evaluation point), and combinations that do not satisfy the contract are discarded."""
    if not (t[0] == "field" and isinstance(t[1], tuple) and t[1] and t[1][0] == "as" and t[1][2] in ("IteChoice", "IteComplChoice", "IteConst")):
        return None
    x = strip(t[1][1])
    if not (mir.is_call(x, "new") and "cache::ite::Ite" in x[1].key() and len(x[2]) == 4):
        return None
    f, g, h = (_pair(_ev(a, env, lbl, ctx)) for a in x[2][1:])
    v = (g[0] if f[0] else h[0], g[1] if f[1] else h[1])
    variant, name = t[1][2], str(t[2])
    if variant == "IteConst":
        return v
    if name not in ("f", "g", "h"):
        raise Undecided("field %s of a standard triple" % name)
    target = v if variant == "IteChoice" else (not v[0], not v[1])
    idx = ctx.choose(("std-triple", variant, show(x)[:80]), 64)
    a, b = idx // 8, idx % 8
    tri = [((a >> k_) & 1 == 1, (b >> k_) & 1 == 1) for k_ in (2, 1, 0)]      # (F, G, H), each a pair over the two points
    F, G, H = tri
    for i in (0, 1):
        if (G[i] if F[i] else H[i]) != target[i]:
            raise Infeasible()
    return {"f": F, "g": G, "h": H}[name]


def leaves(t):
    if isinstance(t, tuple) and t and t[0] in ("gamma", "phi"):
        out = []
        for _, v in t[2]:
            out += leaves(v)
        return out
    return [t]


def _cases(name):
    """(env, label parameter, wanted value, description) for every valuation of the operator's operands"""
    if name in SPECS:
        pos, _, tf = SPECS[name]
        for vals in itertools.product([False, True], repeat=len(pos)):
            w = tf(*vals)
            yield {p: (v, v) for p, v in zip(pos, vals)}, None, (w, w), "%s" % dict(zip(["f", "g", "h"], vals))
    elif name == "exists":
        for f1, f0 in itertools.product([False, True], repeat=2):
            w = f1 or f0
            yield {2: (f1, f0)}, ("param", 3), (w, w), "cofactors (f|v=1, f|v=0) = (%s, %s)" % (f1, f0)
    elif name == "compose":
        # documented definition: ∃v.(g ⇔ v) ∧ f, with g allowed to mention v itself
        for f1, f0, g1, g0 in itertools.product([False, True], repeat=4):
            w = (g1 and f1) or ((not g0) and f0)
            yield {2: (f1, f0), 4: (g1, g0)}, ("param", 3), (w, w), \
                "cofactors (f|v=1, f|v=0, g|v=1, g|v=0) = (%s, %s, %s, %s)" % (f1, f0, g1, g0)
    else:
        raise Undecided("no truth table for %s" % name)


def _alternatives(te):
    """return alternatives with the block they come from and the tests of the choices they sit under"""
    out = []

    def collect(t, pb, facts):
        t_ = strip(t)
        if isinstance(t_, tuple) and t_ and t_[0] == "phi":
            for p_, v in t_[2]:
                collect(v, p_, facts)
        elif isinstance(t_, tuple) and t_ and t_[0] == "gamma":
            for lab, v in t_[2]:
                b = _bool_label(lab)
                collect(v, pb, facts + ([(strip(t_[1]), b)] if b is not None else []))
        else:
            out.append((pb, t, facts))
    for rb, t in te.ret_by_block.items():
        collect(t, rb, [])
    return out


def _consistent(facts, env, lbl, ctx):
    """can this valuation reach the alternative?  Only tests with a pointwise meaning are used: is_true(x) ⇒ x = ⊤,
    is_false(x) ⇒ x = ⊥, eq(x, y) ⇒ x = y; a failed test says nothing about the value at one point."""
    for c, truth in facts:
        if not truth:
            continue
        try:
            if mir.is_call(c, "is_true") and ev(c[2][-1], env, lbl, ctx) != (True, True):
                return False
            if mir.is_call(c, "is_false") and ev(c[2][-1], env, lbl, ctx) != (False, False):
                return False
            if (mir.is_call(c, "eq") or mir.is_call(c, "sdd_eq")) and len(c[2]) >= 2 and \
                    ev(c[2][-2], env, lbl, ctx) != ev(c[2][-1], env, lbl, ctx):
                return False
        except (Undecided, NeedChoice):
            pass
    return True


def _runs(thunk, limit=1024):
    """evaluate under every combination of the choices the evaluation asks for"""
    stack, n = [{}], 0
    while stack:
        ch = stack.pop()
        n += 1
        if n > limit:
            raise Undecided("too many undetermined tests")
        try:
            yield ch, thunk(ch)
        except Infeasible:
            continue
        except NeedChoice as e:
            for i in range(e.n):
                d_ = dict(ch)
                d_[e.key] = i
                stack.append(d_)


def check_def(fn, name, prog=None):
    te = fn.terms
    key = "%s:truth-table" % fn.npath
    alts = _alternatives(te)
    decided = 0
    notes = []
    for pb, alt, gfacts in alts:
        try:
            ways = te.entry_guards(pb) if isinstance(pb, int) and pb >= 0 else [[]]
            ways = [[(strip(c), v != "0") for c, v, _, d in way] + gfacts for way in (ways or [[]])]
            ways = [w for w in ways if not any((c_, not tr_) in w for c_, tr_ in w)]
            for env, lbl, want, descr in _cases(name):
                ctx0 = Ctx(prog, fn, {}) if prog is not None else None
                if not any(_consistent(w, env, lbl, ctx0) for w in ways):
                    continue
                if prog is None:
                    results = [({}, ev(alt, env, lbl))]
                else:
                    def thunk(ch, alt=alt, env=env, lbl=lbl, gfacts=gfacts):
                        cx = Ctx(prog, fn, ch)
                        got_ = ev(alt, env, lbl, cx)
                        # a guard of this alternative that is a flag chosen together with the operands (the `compl` of a
                        # destructured standard triple) must hold under the very choices this run made
                        for c_, tr_ in gfacts:
                            try:
                                b_ = _ev(c_, env, lbl, cx)
                            except Undecided:
                                continue
                            if isinstance(b_, bool) and b_ != tr_:
                                raise Infeasible()
                        return got_
                    results = list(_runs(thunk))
                for ch, got in results:
                    if got != want:
                        return inst("DT", key, VIOLATION, fn, None,
                                    "`%s` returns %s, which for %s%s denotes %s; %s requires %s"
                                    % (name, show(alt)[:120], descr,
                                       (" (taking %s)" % ", ".join("arm %d of `%s`" % (v_, k_[1][:50]) for k_, v_ in sorted(ch.items()))) if ch else "",
                                       got[0] if got[0] == got[1] else got, name, want[0]))
            decided += 1
        except Undecided as e:
            notes.append(str(e))
    if decided == 0:
        return inst("DT", key, UNDECIDED, fn, None, "not a closed term over the known primitives: %s" % "; ".join(notes)[:300])
    return inst("DT", key, OK, fn, None,
                "%s ≡ %s on all valuations its guards admit (%d of %d return alternatives are closed terms)"
                % (name, show([a for _, a, _ in alts][-1])[:160], decided, len(alts)))


def run(prog):
    out = []
    # BDD and SDD blanket impls of BottomUpBuilder
    for ptr in ("repr::bdd::BddPtr", "repr::sdd::SddPtr"):
        for name in ("and", "iff", "xor", "exists", "negate", "ite", "or"):
            fns = [f for f in prog.find(name=name, impl_trait=BB, unit="rsdd-lib")
                   if ("BottomUpBuilder<%s>" % ptr) in f.npath]
            if not fns:
                continue
            if len(fns) > 1:
                raise CheckerError("ambiguous definition of %s for %s" % (name, ptr))
            fn = fns[0]
            if name == "ite" and "BddPtr" in ptr:
                continue  # BDD ite is the primitive (ite_helper), C01 says what is not decided
            if name == "and" and "SddPtr" in ptr:
                continue  # SDD and is the primitive apply
            out.append(check_def(fn, name, prog))
    # trait defaults
    for name in ("or", "compose"):
        fn = prog.find1(name=name, in_trait=BB, unit="rsdd-lib")
        out.append(check_def(fn, name, prog))
    # overrides of the provided methods by an implementor must satisfy the same definition
    done = {r["fn"] for r in out}
    for name in ("or", "compose"):
        for fn in prog.find(name=name, impl_trait=BB, unit="rsdd-lib"):
            if fn.npath in done or (name == "or" and not te_is_derived(fn)):
                continue
            out.append(check_def(fn, name, prog))
    return out


def te_is_derived(fn):
    """an `or` that is itself the primitive apply (loops, table lookups) is not a derived operator"""
    return len(fn.blocks) <= 12
