"""EM — empty cases: what each entry point does for the empty formula and for an empty clause.

C05, C14, C15, C17 and C19 name the boundary inputs explicitly ("including the empty formula and empty clauses").
Whether a function copes with them is visible in its code: the loops over the empty collection do not run, the values
accumulated by those loops keep their initial values, `len()` is 0, `pop()/last()/next()/max()` give `None`.  This
rule evaluates a function *under the assumption that one named collection is empty*, over a small abstract domain

    E  empty collection / exhausted iterator      N  non-empty          NONE / SOME  options
    I n  a known integer                           FREE  a value that does not depend on the assumption (another input:
                                                         it can be chosen) — a count >= 0, a position, a flag
    ?  anything else

walking the control-flow graph: a branch whose condition the domain decides takes one successor, a branch on a FREE
condition takes both (either outcome can be arranged by the other inputs), a branch on an undecided condition that
depends on the assumption makes everything behind it *indefinite*.  Loop-carried values keep their initial value when
the loop's back edge is infeasible.  Reported (definite) failures, each with the input class that triggers it:

    * a diverging call (`panic!`, a failed `assert!`, `unwrap()` of a value that is NONE) reached definitely;
    * an unsigned subtraction `a - b` with a = 0 known and b a FREE count (underflows as soon as b > 0);
    * a float division whose divisor is the length of the empty collection (0/0 = NaN steering a loop exit).

A callee that receives the empty collection is entered (two levels).  Everything the domain does not decide is
undecided, never a violation.  Nothing is executed: values are the five abstract symbols above.
"""
from . import mir, canon
from .base import inst, OK, VIOLATION, UNDECIDED, strip
from .facts import CheckerError
from .mir import show

E, N, NONE, FREE, UNK = ("E",), ("N",), ("NONE",), ("FREE",), ("?",)
PASS_THROUGH = {"iter", "into_iter", "iter_mut", "cloned", "copied", "map", "enumerate", "rev", "peekable", "by_ref", "as_slice",
                "deref", "deref_mut", "as_ref", "as_mut", "to_vec", "clone", "collect", "borrow", "to_owned", "into", "from",
                "inspect", "zip", "sorted", "into_boxed_slice", "as_mut_slice", "from_iter", "lits", "chars", "bytes", "lines"}
THINNING = {"filter", "filter_map", "skip", "take", "skip_while", "take_while", "flatten", "flat_map", "step_by", "dedup", "chain"}
TO_NONE = {"next", "pop", "last", "first", "max", "min", "min_by", "max_by", "min_by_key", "max_by_key", "peek", "find", "position",
           "reduce", "next_back", "nth", "find_map", "pop_front", "pop_back", "split_first", "split_last", "choose"}
DIVERGING = ("panic", "panic_fmt", "panic_display", "assert_failed", "unwrap_failed", "expect_failed", "panic_explicit",
             "unreachable_display", "panic_bounds_check", "begin_panic")


class Ev:
    def __init__(self, prog, fn, assume, depth=0):
        self.prog, self.fn, self.te, self.depth = prog, fn, fn.terms, depth
        self.assume = [strip(a) for a in assume]
        self.feasible = None
        self.memo = {}

    # ---- dependency on the assumption
    def dep(self, t, seen=None):
        t = strip(t)
        if not isinstance(t, tuple) or not t:
            return False
        if t in self.assume:
            return True
        if t[0] == "mu":
            seen = seen or set()
            if (t[1], t[2]) in seen:
                return False
            seen.add((t[1], t[2]))
            return self.dep(self.te.mu_init.get((t[1], t[2]), ()), seen) or \
                any(self.dep(u, seen) for u in self.te.mu_update.get((t[1], t[2]), []))
        if t[0] == "mutref":
            return False
        return any(self.dep(x, seen) for x in t if isinstance(x, tuple))

    # ---- abstract value of a term
    def ev(self, t, bb=None, guard=0):
        t = strip(t)
        if guard > 40 or not isinstance(t, tuple) or not t:
            return UNK
        if t in self.assume:
            return E
        k = t[0]
        if k == "mutref":
            st = self.te.state_in.get(bb, {}) if bb is not None else {}
            v = st.get(t[1]) or (self.te.state_out.get(bb, {}).get(t[1]) if bb is not None else None)
            if v is None:
                return UNK
            v = strip(v)
            if v[0] == "mut" and len(v) > 3:
                v = strip(v[3])
            return self.ev(v, bb, guard + 1)
        if k == "const":
            if t[2].lstrip("-").isdigit():
                return ("I", int(t[2]))
            if t[1] == "bool":
                return ("B", t[2] in ("1", "true"))
            return UNK
        if k == "param":
            return FREE
        if k == "cast":
            return self.ev(t[2], bb, guard + 1)
        if k == "un" and t[1] == "Not":
            v = self.ev(t[2], bb, guard + 1)
            return ("B", not v[1]) if v[0] == "B" else v if v in (FREE,) else UNK
        if k == "as":                      # a payload projection: (x as Some)
            return self.ev(t[1], bb, guard + 1) if False else UNK
        if k == "field":
            x = strip(t[1])
            if x[0] == "as":
                return FREE if not self.dep(x) else UNK
            v = self.ev(x, bb, guard + 1)
            if v[0] == "T" and t[2].isdigit() and int(t[2]) < len(v[1]):
                return v[1][int(t[2])]
            if v == FREE:
                return FREE
            return UNK
        if k == "agg":
            if t[1] == "tuple":
                return ("T", [self.ev(o, bb, guard + 1) for o in t[4]])
            if (t[2] or "").endswith("Range") and len(t[4]) == 2:
                lo, hi = self.ev(t[4][0], bb, guard + 1), self.ev(t[4][1], bb, guard + 1)
                if lo[0] == "I" and hi[0] == "I":
                    return E if lo[1] >= hi[1] else N
                return UNK if self.dep(t) else FREE
            if t[3] == "None":
                return NONE
            if t[3] == "Some":
                return ("SOME",)
            return UNK if self.dep(t) else FREE
        if k == "mut":                     # the object behind a &mut argument after a call
            nm = getattr(t[2], "name", "")
            if nm in ("push", "insert", "push_back", "push_front", "extend_from_slice"):
                return N
            if nm in ("next", "next_back", "pop", "clear", "truncate", "retain", "dedup", "sort", "sort_by", "sort_by_key", "drain",
                      "sort_unstable", "sort_unstable_by_key", "reverse", "nth", "init_vars", "gen_cutset"):
                v = self.ev(t[3], bb, guard + 1)
                return E if v == E or nm == "clear" else (UNK if v == N else v)
            return UNK
        if k == "mu":
            return self.mu(t, guard)
        if k in ("gamma", "phi"):
            vals = []
            if k == "gamma":
                c = self.ev(t[1], bb, guard + 1)
                for lab, v in t[2]:
                    if c[0] == "B" and isinstance(lab, str) and lab in ("0", "1") and (lab == "1") != c[1]:
                        continue
                    if c[0] == "B" and isinstance(lab, tuple) and lab[0] == "not" and (("0" in lab[1]) != c[1]):
                        continue
                    vals.append(self.ev(v, bb, guard + 1))
            else:
                for pb, v in t[2]:
                    if self.feasible is not None and pb not in self.feasible and pb != -1:
                        continue
                    vals.append(self.ev(v, bb, guard + 1))
            vals = [v for i, v in enumerate(vals) if v not in vals[:i]]
            return vals[0] if len(vals) == 1 else UNK
        if k == "bin":
            op = t[1].replace("WithOverflow", "").replace("Unchecked", "")
            a, b = self.ev(t[2], bb, guard + 1), self.ev(t[3], bb, guard + 1)
            if t[1].endswith("WithOverflow"):
                r = self.arith(op, a, b)
                return ("T", [r, UNK])
            if op in ("Eq", "Ne", "Lt", "Le", "Gt", "Ge"):
                if a[0] == "I" and b[0] == "I":
                    return ("B", {"Eq": a[1] == b[1], "Ne": a[1] != b[1], "Lt": a[1] < b[1], "Le": a[1] <= b[1],
                                  "Gt": a[1] > b[1], "Ge": a[1] >= b[1]}[op])
                if FREE in (a, b) and not self.dep(t):
                    return FREE
                return UNK
            return self.arith(op, a, b)
        if k == "call":
            return self.call(t, bb, guard)
        if k == "discr":
            v = self.ev(t[1], bb, guard + 1)
            if v == NONE:
                return ("V", "None")
            if v[0] == "SOME":
                return ("V", "Some")
            return FREE if not self.dep(t) else UNK
        return UNK if self.dep(t) else FREE

    def arith(self, op, a, b):
        if a[0] == "I" and b[0] == "I":
            try:
                return ("I", {"Add": a[1] + b[1], "Sub": a[1] - b[1], "Mul": a[1] * b[1]}[op])
            except KeyError:
                return UNK
        if FREE in (a, b) and UNK not in (a, b):
            return FREE
        return UNK

    def call(self, t, bb, guard):
        c, args = t[1], t[2]
        nm = c.name
        a0 = self.ev(args[0], bb, guard + 1) if args else UNK
        if nm in ("new", "default", "with_capacity", "new_in") and any(x in c.key() for x in ("Vec", "VecDeque", "HashMap", "HashSet", "BTreeMap", "String")):
            return E
        if nm in PASS_THROUGH and args:
            if nm == "zip" and len(args) == 2 and (a0 == E or self.ev(args[1], bb, guard + 1) == E):
                return E
            return a0
        if nm in THINNING and args:
            return E if a0 == E else (UNK if a0 == N else a0)
        if nm in ("len", "count") and args:
            return ("I", 0) if a0 == E else (FREE if a0 in (FREE,) or not self.dep(t) else UNK)
        if nm == "is_empty" and args:
            return ("B", True) if a0 == E else (("B", False) if a0 == N else (FREE if not self.dep(t) else UNK))
        if nm in TO_NONE and args:
            return NONE if a0 == E else (FREE if not self.dep(t) else UNK)
        if nm in ("unwrap", "expect", "unwrap_unchecked") and args:
            return ("PANIC", "`%s()` of a value that is None" % nm) if a0 == NONE else (FREE if not self.dep(t) else UNK)
        if nm in ("unwrap_or", "unwrap_or_default", "unwrap_or_else") and args:
            if a0 == NONE:
                return self.ev(args[1], bb, guard + 1) if nm == "unwrap_or" and len(args) > 1 else UNK
            return FREE if not self.dep(t) else UNK
        if nm in ("is_none",) and args:
            return ("B", True) if a0 == NONE else (("B", False) if a0[0] == "SOME" else (FREE if not self.dep(t) else UNK))
        if nm in ("is_some",) and args:
            return ("B", False) if a0 == NONE else (("B", True) if a0[0] == "SOME" else (FREE if not self.dep(t) else UNK))
        if nm == "partition" and args:
            return ("T", [E, E]) if a0 == E else UNK
        if nm in ("sum", "product") and args:
            return ("I", 0 if nm == "sum" else 1) if a0 == E else (FREE if not self.dep(t) else UNK)
        if nm == "fold" and len(args) == 3:
            return self.ev(args[1], bb, guard + 1) if a0 == E else UNK
        if nm in ("any",) and args:
            return ("B", False) if a0 == E else (FREE if not self.dep(t) else UNK)
        if nm in ("all",) and args:
            return ("B", True) if a0 == E else (FREE if not self.dep(t) else UNK)
        if nm in ("index", "index_mut") and len(args) == 2 and a0 == E:
            return ("PANIC", "indexing into an empty collection")
        # a local accessor with a plain body
        if c.local or getattr(c, "res_local", False):
            hs = [h for h in self.prog.resolve(c) if h.kind != "Closure"]
            if len(hs) == 1 and hs[0].terms.ret is not None and not canon._calls(hs[0].terms.ret, hs[0]) and not canon.has_unknown(hs[0].terms.ret):
                r = canon.subst(hs[0].terms.ret, {i + 1: x for i, x in enumerate(args)})
                if strip(r) in self.assume:
                    return E
                return self.ev(r, bb, guard + 1)
        return UNK if self.dep(t) else FREE

    def mu(self, t, guard):
        key = (t[1], t[2])
        if key in self.memo:
            return self.memo[key]
        self.memo[key] = UNK
        init = self.ev(self.te.mu_init.get(key, ()), None, guard + 1)
        backs = [u for (u, h) in self.fn.cfg.back_edges if h == t[1]]
        never = self.feasible is not None and not any(u in self.feasible for u in backs)
        if never:
            self.memo[key] = init
            return init
        if init == E:
            self.memo[key] = E
            latches = [u for (u, h) in self.fn.cfg.back_edges if h == t[1] and u in self.te.state_out]
            ups = self.te.mu_update.get(key, [])
            live = [u for la, u in zip(latches, ups) if self.feasible is None or la in self.feasible] if len(latches) == len(ups) else ups
            if all(self.ev(u, None, guard + 1) == E for u in live):
                return E
        self.memo[key] = UNK if self.dep(t) else FREE
        return self.memo[key]

    # ---- feasibility walk
    def walk(self):
        fn, te, cfg = self.fn, self.te, self.fn.cfg
        self.feasible = {0}               # optimistic start: no loop iterates; grown until stable
        for _round in range(6):
            self.memo = {}
            reach = {0: True}                 # block -> reached definitely?
            caused = set()                    # blocks entered because a condition *on the assumed-empty collection* decided so
            work = [0]
            while work:
                b = work.pop()
                definite = reach[b]
                t = fn.blocks[b]["term"]
                succs = []
                if t["k"] == "switch" and b in te.switch_term:
                    c, vm = te.switch_term[b]
                    v = self.ev(c, b)
                    chosen = None
                    if v[0] == "B":
                        chosen = "1" if v[1] else "0"
                    elif v[0] == "V" and vm:
                        chosen = next((lab for lab, name in vm.items() if name == v[1]), None)
                    elif v[0] == "I":
                        chosen = str(v[1])
                    if chosen is not None:
                        tgt = next((s for lab, s in t["targets"] if lab == chosen), t.get("otherwise"))
                        succs = [(tgt, definite)]
                        if self.dep(c) and tgt is not None:
                            x, g = tgt, 0
                            caused.add(x)
                            while fn.blocks[x]["term"]["k"] == "goto" and g < 6:
                                x = fn.blocks[x]["term"]["target"]
                                caused.add(x)
                                g += 1
                    else:
                        free = v == FREE or not self.dep(c)
                        succs = [(s, definite and free) for s in cfg.succ[b]]
                else:
                    succs = [(s, definite) for s in cfg.succ[b]]
                for s, d in succs:
                    if s is None:
                        continue
                    if s not in reach or (d and not reach[s]):
                        reach[s] = d
                        work.append(s)
            if self.feasible == set(reach):
                break
            self.feasible = set(reach)
        self.reach = reach
        self.caused = caused
        return reach

    # ---- findings
    def findings(self, what, chain=()):
        reach = self.walk()
        fn, te = self.fn, self.te
        out = []
        where = " → ".join(list(chain) + [fn.name])
        for b, definite in sorted(reach.items()):
            if not definite:
                continue
            blk = fn.blocks[b]
            t = blk["term"]
            if t["k"] == "call":
                cs = te.calls_by_bb.get(b)
                if cs is None:
                    continue
                nm = cs.callee.name
                if nm in DIVERGING or (t.get("target") is None and "panic" in (cs.callee.def_ or "")):
                    # only a panic whose guard was decided by the emptiness itself is attributed to the input class
                    # (a panic behind a condition on other inputs happens, or not, independently of it)
                    if b in self.caused:
                        out.append(("panic", "%s: a panic (line %d) is reached for %s" % (where, cs.line, what)))
                    continue
                v = self.ev(("call", cs.callee, tuple(cs.args)), b)
                if v[0] == "PANIC":
                    out.append(("panic", "%s: %s (line %d) for %s" % (where, v[1], cs.line, what)))
                    continue
                # enter a callee that receives the empty collection
                if self.depth < 2 and (cs.callee.local or getattr(cs.callee, "res_local", False)):
                    hs = [h for h in self.prog.resolve(cs.callee) if h.kind != "Closure" and h.unit == fn.unit]
                    if len(hs) == 1 and hs[0] is not fn:
                        sub = []
                        for i, a in enumerate(cs.args):
                            a0 = strip(a)
                            if a0[0] == "mutref":
                                st = te.state_in.get(b, {}).get(a0[1])
                                a0 = strip(st) if st is not None else a0
                            if self.ev(a0, b) == E:
                                sub.append(("param", i + 1))
                            for A in self.assume:
                                if A[0] == "field" and strip(A[1]) == a0:
                                    sub.append(("field", ("param", i + 1)) + tuple(A[2:]))
                        if sub:
                            out += Ev(self.prog, hs[0], sub, self.depth + 1).findings(what, chain + (fn.name,))
            for st in blk["stmts"]:
                if st["k"] != "assign" or st["rv"]["k"] != "bin":
                    continue
                op = st["rv"]["op"]
                term = te.state_out.get(b, {}).get(st["lhs"]["l"])
                if term is None or strip(term)[0] != "bin":
                    continue
                term = strip(term)
                if op.startswith("Sub") and "usize" in (fn.locals[st["lhs"]["l"]]["s"] if st["lhs"]["l"] < len(fn.locals) else "usize") or \
                        (op.startswith("Sub") and "u64" in fn.locals[st["lhs"]["l"]]["s"]):
                    a, bv = self.ev(term[2], b), self.ev(term[3], b)
                    if a == ("I", 0) and bv == FREE:
                        out.append(("underflow", "%s: `%s` (line %d) is 0 − n for %s, where n = %s is non-zero for every input with "
                                    "variables: the unsigned subtraction underflows (panic in builds with overflow checks, a huge "
                                    "value otherwise)" % (where, show(term)[:50], st.get("line", 0), what, show(term[3])[:30])))
                if op == "Div":
                    bv = self.ev(term[3], b)
                    if bv == ("I", 0) and "f" in (fn.locals[st["lhs"]["l"]]["s"] if st["lhs"]["l"] < len(fn.locals) else ""):
                        out.append(("nan", "%s: the division `%s` (line %d) has the divisor 0 for %s: the quotient is NaN (or ∞), and "
                                    "every comparison that steers on it is false" % (where, show(term)[:50], st.get("line", 0), what)))
        return out


def items_over(fn, pred):
    """the item terms `(next(it) as Some).0` of loops whose iterator is created from a collection satisfying pred"""
    te = fn.terms
    out = []
    for (h, l), init in te.mu_init.items():
        src = strip(init)
        guard = 0
        while mir.is_call(src) and src[2] and src[1].name in PASS_THROUGH and guard < 8:
            src = strip(src[2][0])
            guard += 1
        if not pred(src):
            continue
        for cs in te.calls:
            if cs.callee.name == "next" and cs.args and strip(cs.args[0]) == ("mutref", l):
                item = ("field", ("as", ("call", cs.callee, tuple(cs.args)) + ((cs.bb,),), "Some"), "0", "std::option::Option")
                out.append(item)
                # the same payload as it appears in terms (with its call-site tag)
                for x in mir.subterms(te.ret) if te.ret is not None else []:
                    pass
    return out


def payloads_of(fn, l):
    """every term of the form (next(&mut _l) as Some).0 occurring in fn"""
    te = fn.terms
    found = set()

    def scan(t):
        for x in mir.subterms(t):
            x0 = strip(x)
            if isinstance(x0, tuple) and x0 and x0[0] == "field" and x0[2] == "0" and isinstance(x0[1], tuple) and x0[1][0] == "as" and x0[1][2] == "Some":
                c = strip(x0[1][1])
                if mir.is_call(c, "next") and c[2] and strip(c[2][0]) == ("mutref", l):
                    found.add(x0)
    for cs in te.calls:
        for a in cs.args:
            scan(a)
    if te.ret is not None:
        scan(te.ret)
    for (_bb, pl, v, _ln) in te.stores:
        scan(pl)
        scan(v)
    for key, ups in te.mu_update.items():
        for u in ups:
            scan(u)
    return found


def clause_items(fn, is_clause_list):
    te = fn.terms
    out = set()
    for (h, l), init in te.mu_init.items():
        src = strip(init)
        g = 0
        while mir.is_call(src) and src[2] and src[1].name in PASS_THROUGH and g < 8:
            src = strip(src[2][0])
            g += 1
        if is_clause_list(src):
            out |= payloads_of(fn, l)
    return out


def is_field(name):
    return lambda t: isinstance(t, tuple) and t and ((t[0] == "field" and t[2] == name) or (mir.is_call(t, name) and len(t[2]) == 1))


ENTRIES = [
    # (key, finder, kind of assumption, input class in words)
    ("repr::dtree::DTree::from_cnf", dict(name="from_cnf", self_adt="repr::dtree::DTree"), ("list", "clauses"), "a CNF without clauses (the empty formula)"),
    ("repr::cnf::Cnf::force_order", dict(name="force_order", self_adt="repr::cnf::Cnf"), ("list", "clauses"), "a CNF without clauses (the empty formula)"),
    ("repr::cnf::Cnf::average_span", dict(name="average_span", self_adt="repr::cnf::Cnf"), ("item", "clauses"), "a CNF with an empty clause"),
    ("repr::cnf::Cnf::interaction_graph#formula", dict(name="interaction_graph", self_adt="repr::cnf::Cnf"), ("list", "clauses"), "a CNF without clauses (the empty formula)"),
    ("repr::cnf::Cnf::interaction_graph", dict(name="interaction_graph", self_adt="repr::cnf::Cnf"), ("item", "clauses"), "a CNF with an empty clause"),
    ("repr::cnf::Cnf::new", dict(name="new", self_adt="repr::cnf::Cnf"), ("param", 1), "an empty list of clauses"),
    ("repr::cnf::Cnf::eval#formula", dict(name="eval", self_adt="repr::cnf::Cnf"), ("list", "clauses"), "a CNF without clauses (the empty formula)"),
    ("repr::cnf::Cnf::eval", dict(name="eval", self_adt="repr::cnf::Cnf"), ("item", "clauses"), "a CNF with an empty clause"),
    ("repr::cnf::Cnf::to_dimacs", dict(name="to_dimacs", self_adt="repr::cnf::Cnf"), ("item", "clauses"), "a CNF with an empty clause"),
    ("repr::logical_expr::LogicalExpr::from_dimacs#clause", dict(name="from_dimacs", self_adt="repr::logical_expr::LogicalExpr"), ("item-lits", None), "a DIMACS text with an empty clause"),
    ("repr::logical_expr::LogicalExpr::from_dimacs#formula", dict(name="from_dimacs", self_adt="repr::logical_expr::LogicalExpr"), ("parsed-list", None), "a DIMACS text without clauses"),
    ("repr::cnf::Cnf::from_dimacs#clause", dict(name="from_dimacs", self_adt="repr::cnf::Cnf"), ("item-lits", None), "a DIMACS text with an empty clause"),
    ("repr::cnf::CnfHasher::new", dict(name="new", self_adt="repr::cnf::CnfHasher"), ("param", 1), "an empty list of clauses"),
    ("repr::unit_prop::UnitPropagate::new#clause", dict(name="new", self_adt="repr::unit_prop::UnitPropagate"), ("item", "clauses"), "a CNF with an empty clause"),
    ("repr::unit_prop::SATSolver::new", dict(name="new", self_adt="repr::unit_prop::SATSolver"), ("list", "clauses"), "a CNF without clauses (the empty formula)"),
]


def assumption(prog, fn, kind):
    te = fn.terms
    what, arg = kind
    if what == "param":
        return [("param", arg)]
    if what == "list":
        out = set()
        for cs in te.calls:
            for a in list(cs.args):
                for x in mir.subterms(a):
                    x0 = strip(x)
                    if is_field(arg)(x0) and strip(x0[1] if x0[0] == "field" else x0[2][0])[0] == "param":
                        out.add(x0)
        for x in mir.subterms(te.ret) if te.ret is not None else []:
            x0 = strip(x)
            if is_field(arg)(x0) and strip(x0[1] if x0[0] == "field" else x0[2][0])[0] == "param":
                out.add(x0)
        if not out and fn.impl_self:
            # the function does not touch the list itself (its helpers do): state the assumption on the receiver's field
            out.add(("field", ("param", 1), arg, fn.impl_self))
        return sorted(out, key=repr)
    if what == "item":
        return sorted(clause_items(fn, lambda s: is_field(arg)(s) and strip(s[1] if s[0] == "field" else s[2][0])[0] == "param"), key=repr)
    if what == "item-param":
        return sorted(clause_items(fn, lambda s_: strip(s_) == ("param", arg)), key=repr)
    if what == "item-lits":
        # the literal list of a parsed clause: lits(item) for the items of the loop over the parser's clause list
        out = set()
        for cs in te.calls:
            if cs.callee.name == "lits" and cs.args:
                out.add(strip(("call", cs.callee, tuple(cs.args))))
                for a in cs.args:
                    pass
        for t in [a for cs in te.calls for a in cs.args] + [u for ups in te.mu_update.values() for u in ups] + list(te.mu_init.values()):
            for x in mir.subterms(t):
                x0 = strip(x)
                if mir.is_call(x0, "lits"):
                    out.add(x0)
        return sorted(out, key=repr)
    if what == "parsed-list":
        # the clause list the DIMACS parser returned: the payload field `clauses` of the Cnf instance
        out = set()
        for t in [a for cs in te.calls for a in cs.args] + list(te.mu_init.values()):
            for x in mir.subterms(t):
                x0 = strip(x)
                if isinstance(x0, tuple) and x0 and x0[0] == "field" and x0[2] in ("clauses", "1") and "parse_dimacs" in show(x0) and "as Cnf" in show(x0):
                    out.add(x0)
        return sorted(out, key=repr)
    return []


def run(prog):
    out = []
    for key, finder, kind, what in ENTRIES:
        fs_ = [f for f in prog.lib_fns if f.name == finder["name"] and f.impl_self == finder["self_adt"] and f.kind != "Closure"]
        k = "%s:empty-case" % key
        if len(fs_) != 1:
            out.append(inst("EM", k, UNDECIDED, None, None, "entry point not found"))
            continue
        fn = prog.default_args_worker(fs_[0])
        asm = assumption(prog, fn, kind)
        if not asm and kind[0] == "item":
            # the items are consumed by closures of an iterator chain over the list: evaluate each closure with its item empty
            # walk each chain from the list outwards: a `filter` whose predicate is false for an empty item drops it
            chains = []
            for cs in fn.terms.calls:
                if not cs.args:
                    continue
                seq, t = [], ("call", cs.callee, tuple(cs.args))
                while isinstance(t, tuple) and t and t[0] == "call" and t[2]:
                    seq.append(t)
                    t = strip(t[2][0])
                if is_field(kind[1])(t) and len(seq) > 1:
                    chains.append(list(reversed(seq)))
            # keep the longest chains only (every prefix of a chain is a call as well)
            chains = [c for c in chains if not any(len(o) > len(c) and o[:len(c)] == c for o in chains)]
            if chains:
                fnd, undecided, n_clo = [], None, 0
                try:
                    for ch in chains:
                        for t in ch:
                            clo = [strip(a) for a in t[2][1:] if strip(a)[0] == "agg" and strip(a)[1] == "closure"]
                            ks = [k_ for c_ in clo for k_ in prog.fns if k_.npath == c_[2]]
                            if not ks:
                                continue
                            n_clo += 1
                            if t[1].name in ("filter", "take_while", "skip_while", "filter_map"):
                                e = Ev(prog, ks[0], [("param", 2), ("deref", ("param", 2))])
                                e.walk()
                                v = e.ev(ks[0].terms.ret)
                                if v == ("B", False) and t[1].name in ("filter", "take_while"):
                                    break            # the empty item never reaches the later stages
                                if v[0] != "B":
                                    undecided = "the predicate of `%s` is not decided for an empty item" % t[1].name
                                    break
                                continue
                            fnd += Ev(prog, ks[0], [("param", 2), ("deref", ("param", 2))]).findings(what, (fn.name,))
                except RecursionError:
                    undecided = "evaluation did not terminate"
                fnd = [f for i, f in enumerate(fnd) if f not in fnd[:i]]
                if fnd:
                    out.append(inst("EM", k, VIOLATION, fn, None, "; ".join(m for _, m in fnd[:2])))
                elif undecided:
                    out.append(inst("EM", k, UNDECIDED, fn, None, undecided))
                else:
                    out.append(inst("EM", k, OK, fn, None, "no panic, unsigned underflow or 0-divisor is reached definitely for %s (%d stage(s) of "
                                    "the iterator chain over the items evaluated with an empty item)" % (what, n_clo)))
                continue
        if not asm:
            out.append(inst("EM", k, UNDECIDED, fn, None, "the collection assumed empty (%s) was not located in the function" % (kind,)))
            continue
        try:
            fnd = Ev(prog, fn, asm).findings(what)
        except RecursionError:
            out.append(inst("EM", k, UNDECIDED, fn, None, "evaluation did not terminate"))
            continue
        fnd = [f for i, f in enumerate(fnd) if f not in fnd[:i]]
        if fnd:
            out.append(inst("EM", k, VIOLATION, fn, None, "; ".join(m for _, m in fnd[:2])))
        else:
            out.append(inst("EM", k, OK, fn, None, "no panic, unsigned underflow or 0-divisor is reached definitely for %s (%d term(s) assumed "
                            "empty)" % (what, len(asm))))
    return out
