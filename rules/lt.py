"""LT — label-indexed tables keep their indexing.

A Vec field that the code indexes by a variable label (`tab[label.value_usize()]`) is a *map* from
labels to entries; entry i belongs to label i.  The tables are discovered from the source (every
field that is the receiver of Index/IndexMut with an index derived from VarLabel::value*), and on
each of them every call that moves entries to other positions (insert, remove, swap_remove, drain,
retain, dedup, truncate, pop, sort, reverse, rotate, splice, split_off) is a violation: after it
some label would read the entry of a neighbour.  Growth by `push` and update through `index_mut`
keep the indexing and are the accepted idioms (what every site does today).
"""
from . import mir, vo
from .base import inst, OK, VIOLATION, strip
from .facts import CheckerError
from .mir import show

SHIFTING = {"insert", "remove", "swap_remove", "drain", "retain", "retain_mut", "dedup", "dedup_by", "dedup_by_key",
            "truncate", "pop", "split_off", "sort", "sort_by", "sort_by_key", "sort_unstable", "sort_unstable_by",
            "sort_unstable_by_key", "reverse", "rotate_left", "rotate_right", "splice", "extend_from_within"}
EXPECTED = {("repr::wmc::WmcParams", "var_to_val"), ("repr::unit_prop::UnitPropagate", "watch_list_pos"),
            ("repr::unit_prop::UnitPropagate", "watch_list_neg"), ("repr::var_order::VarOrder", "var_to_pos"),
            ("repr::cnf::CnfHasher", "pos_lits"), ("repr::cnf::CnfHasher", "neg_lits"),
            ("repr::vtree::VTreeManager", "vtree_index")}


def fieldkey(t):
    t = strip(t)
    while isinstance(t, tuple) and t and t[0] in ("ref", "deref", "mut"):
        t = strip(t[1])
    if isinstance(t, tuple) and t and t[0] == "field":
        return (t[3], t[2])
    return None


def fieldkeys(t, depth=0):
    """the table(s) a receiver stands for: one field, or each alternative of `if c { &self.a } else { &self.b }`"""
    t = strip(t)
    while isinstance(t, tuple) and t and t[0] in ("ref", "deref", "mut"):
        t = strip(t[1])
    if isinstance(t, tuple) and t and t[0] in ("gamma", "phi") and depth < 4:
        out = []
        for _, v in t[2]:
            ks = fieldkeys(v, depth + 1)
            if not ks:
                return []
            out += ks
        return out
    k = fieldkey(t)
    return [k] if k else []


def run(prog):
    fns = [f for f in prog.lib_fns if any(b["term"]["k"] == "call" for b in f.blocks)
           and not f.name.startswith("test") and "::test" not in f.npath]
    tabs = {}
    for f in fns:
        for cs in f.terms.calls:
            # an indexing expression, or a checked lookup (`tab.get(label)`), by a label
            if (cs.callee.name in ("index", "index_mut") or
                (cs.callee.name in ("get", "get_mut") and ("slice" in cs.callee.key() or "Vec" in cs.callee.key()))) \
                    and len(cs.args) == 2 and vo.dim(f, cs.args[1]) == "Label":
                for k in fieldkeys(cs.args[0]):
                    tabs.setdefault(k, []).append(f.name)
    missing = EXPECTED - set(tabs)
    if missing:
        raise CheckerError("LT: label-indexed tables confirmed by hand are no longer discovered: %s" % sorted(missing))
    uses = {k: [] for k in tabs}
    bad = {k: [] for k in tabs}
    shrinks = {}
    for f in fns:
        for cs in f.terms.calls:
            k = fieldkey(cs.args[0]) if cs.args else None
            if k in tabs:
                uses[k].append(cs.callee.name)
                if cs.callee.name in SHIFTING and ("Vec" in cs.callee.key() or "slice" in cs.callee.key()):
                    bad[k].append((f, cs))
                if cs.callee.name in ("resize", "resize_with") and "Vec" in cs.callee.key() and len(cs.args) >= 2:
                    # growing a label table is fine, shrinking it drops the entries of the larger labels: the new length is
                    # max(len, ..) or the call is under a comparison with the table's own length
                    nl = strip(cs.args[1])
                    tab = show(strip(cs.args[0]))
                    grows = mir.is_call(nl, "max") and any("len(" in show(a) for a in nl[2])
                    guarded = any("len(" in show(c) and strip(c)[0] == "bin" for c, _v, _a, _b in f.terms.facts_at(cs.bb))
                    if not grows and not guarded:
                        shrinks.setdefault(k, []).append((f, cs))
    out = []
    for k in sorted(tabs):
        adt, fld = k
        if k in shrinks and not bad[k]:
            f, cs = shrinks[k][0]
            out.append(inst("LT", "%s.%s:indexing-kept" % (adt, fld), VIOLATION, f, cs.line,
                            "%s (line %d) resizes %s, a table indexed by variable label, to %s without comparing with its current "
                            "length: when the table is already longer the call truncates it and the entries of the larger labels "
                            "are lost" % (f.name, cs.line, fld, show(cs.args[1])[:40])))
            continue
        if bad[k]:
            f, cs = bad[k][0]
            out.append(inst("LT", "%s.%s:indexing-kept" % (adt, fld), VIOLATION, f, cs.line,
                            "%s (line %d) calls %s on %s, a table indexed by variable label (in %s): entries move to other "
                            "positions, so labels read their neighbours' entries afterwards"
                            % (f.name, cs.line, cs.callee.name, fld, sorted(set(tabs[k]))[:3])))
        else:
            out.append(inst("LT", "%s.%s:indexing-kept" % (adt, fld), OK, None, None,
                            "indexed by label in %s; receivers used only with %s" % (sorted(set(tabs[k]))[:3], sorted(set(uses[k]))),
                            loc=(prog.adts.get(adt) or {}).get("file", "?") + ":%d" % (prog.adts.get(adt) or {}).get("line", 0)))
    return out
