"""PM — the partial model's two-set bookkeeping.

A PartialModel is two variable sets; variable x is True iff x ∈ true_assignments, False iff
x ∈ false_assignments, unset iff in neither, and never in both.  The rule interprets the bodies of
the PartialModel methods over that abstraction (per variable a pair of membership bits, three
consistent states) instead of running them:

  set(x, v)    every path ends with (x∈T, x∈F) = (v, ¬v), from every consistent start state
  unset(x)     every path ends with (0, 0)
  get(x)       (1,0) ↦ Some(true), (0,1) ↦ Some(false), (0,0) ↦ None
  is_set(x)    x∈T ∨ x∈F
  lit_implied(l) / lit_neg_implied(l)   get(label) = Some(polarity) / Some(¬polarity)
  from_assignments        Some(true) inserts into the true set, Some(false) into the false set
  assignment_iter / difference   literals made from the true sets carry polarity true, from the false sets false
"""
import itertools
from . import mir
from .base import inst, OK, VIOLATION, UNDECIDED, strip
from .facts import CheckerError
from .mir import show

PMT = "repr::model::PartialModel"
STATES = [(0, 0), (1, 0), (0, 1)]


class Und(Exception):
    pass


def which_set(t):
    t = strip(t)
    while isinstance(t, tuple) and t and t[0] in ("ref", "deref", "mut"):
        t = strip(t[1])
    if isinstance(t, tuple) and t and t[0] == "field" and t[3] == PMT:
        return {"true_assignments": 0, "false_assignments": 1}.get(t[2])
    return None


def resolve(t, v):
    """specialise a term to value = v: γ on the `value` parameter picks its arm, projections of tuple literals reduce"""
    t = strip(t)
    if not isinstance(t, tuple) or not t:
        return t
    if t[0] == "gamma" and strip(t[1]) == ("param", 3) and v is not None:
        return resolve(pick(t[2], v), v)
    if t[0] == "field" and isinstance(t[1], tuple):
        inner = resolve(t[1], v)
        if isinstance(inner, tuple) and inner and inner[0] == "agg" and inner[1] == "tuple" and str(t[2]).isdigit() and int(t[2]) < len(inner[4]):
            return resolve(inner[4][int(t[2])], v)
        return ("field", inner) + tuple(t[2:])
    if t[0] in ("ref", "deref", "mut"):
        return resolve(t[1], v)
    return t


def pick(arms, v):
    """arm of a gamma for an integer condition value"""
    for lab, val in arms:
        if lab == str(v):
            return val
    for lab, val in arms:
        if isinstance(lab, tuple) and lab[0] == "not" and str(v) not in lab[1]:
            return val
    raise Und("no gamma arm for %s" % v)


def ev(t, env):
    """env: 'state' (t, f) for the variable named env['x'] (a term), 'params' {index: value}; values are
    ints for bools, ('None',) / ('Some', v) for options"""
    t = strip(t)
    if not isinstance(t, tuple) or not t:
        raise Und("non-term")
    k = t[0]
    if k == "const":
        return int(t[2])
    if k == "param":
        if t[1] in env["params"]:
            return env["params"][t[1]]
        raise Und("free parameter arg%d" % t[1])
    if k == "gamma":
        c = ev(t[1], env)
        if isinstance(c, tuple):
            raise Und("gamma on a non-scalar")
        return ev(pick(t[2], c), env)
    if k == "agg" and t[1] == "adt" and t[2].endswith("Option"):
        return ("None",) if t[3] == "None" else ("Some", ev(t[4][0], env))
    if k == "bin" and t[1] in ("Eq", "Ne", "BitOr", "BitAnd"):
        a, b = ev(t[2], env), ev(t[3], env)
        if t[1] in ("BitOr", "BitAnd") and (isinstance(a, tuple) or isinstance(b, tuple)):
            raise Und("bit operation on a non-scalar")
        if t[1] == "Eq":
            return int(a == b)
        if t[1] == "Ne":
            return int(a != b)
        return (a | b) if t[1] == "BitOr" else (a & b)
    if k == "un" and t[1] == "Not":
        return 1 - ev(t[2], env)
    if k == "pmval":
        return t[1]
    if k == "phi":
        te_ = env.get("te")
        if te_ is None:
            raise Und("join")
        cands = []
        for pb, v in t[2]:
            pbn = int(str(pb).replace("bb", "")) if not isinstance(pb, int) else pb
            ok, spec = True, 0
            for c, val, _, _ in te_.facts_at(pbn):
                try:
                    got = ev(c, env)
                except Und:
                    continue
                if isinstance(got, tuple):
                    continue
                spec += 1
                if bool(got) != (val != "0"):
                    ok = False
            if ok:
                cands.append((spec, v))
        if not cands:
            raise Und("no alternative of a join applies")
        best = max(c[0] for c in cands)
        vals = {repr(ev(v, env)) for sp, v in cands if sp == best}
        if len(vals) == 1:
            return ev([v for sp, v in cands if sp == best][0], env)
        raise Und("ambiguous join")
    if k == "call":
        nm = t[1].name
        a = t[2]
        if nm == "contains" and len(a) == 2 and which_set(a[0]) is not None:
            if strip(a[1]) != env["x"]:
                raise Und("membership of another variable")
            return env["state"][which_set(a[0])]
        if nm == "get" and PMT in t[1].key() and len(a) == 2:
            if strip(a[1]) != env["x"]:
                raise Und("get of another variable")
            return env["get"](env["state"])
        if nm == "polarity":
            return env["pol"]
        if nm == "then_some" and len(a) == 2:
            c_ = ev(a[0], env)
            return ("Some", ev(a[1], env)) if c_ else ("None",)
        if nm == "then" and len(a) == 2:
            raise Und("then(closure)")
        if nm in ("is_some_and", "is_none_or", "map_or") and len(a) >= 2:
            # Option combinators with a predicate closure: the closure's body evaluated on the payload
            v = ev(a[0], env)
            if not isinstance(v, tuple):
                raise Und("%s of a scalar" % nm)
            if v == ("None",):
                return {"is_some_and": 0, "is_none_or": 1}.get(nm) if nm != "map_or" else ev(a[1], env)
            from . import canon
            body = canon.apply_closure(mir.CURRENT, a[-1], ("pmval", v[1]))
            if body is None:
                raise Und("%s with an opaque predicate" % nm)
            return ev(body, env)
        if nm in ("is_some", "is_none") and a:
            v = ev(a[0], env)
            if not isinstance(v, tuple):
                raise Und("is_some of a scalar")
            return int((v != ("None",)) == (nm == "is_some"))
        if nm == "discr" or nm == "discriminant":
            v = ev(a[0], env)
            return 0 if v == ("None",) else 1
    if k == "discr":
        v = ev(t[1], env)
        return 0 if v == ("None",) else 1
    if k == "field" and t[2] == "0" and isinstance(t[1], tuple) and t[1][0] == "as":
        v = ev(t[1][1], env)
        if v[0] != "Some":
            raise Und("payload of None")
        return v[1]
    raise Und("term %s" % show(t)[:60])


def spec_get(s):
    return {(1, 0): ("Some", 1), (0, 1): ("Some", 0), (0, 0): ("None",)}[s]


def paths(fn):
    """all entry→return paths of an acyclic body as lists of (block, edge label taken)"""
    out = []

    def go(b, trail, seen):
        t = fn.blocks[b]["term"]
        k = t["k"]
        if k == "return":
            out.append(trail + [(b, None)])
            return
        if b in seen:
            raise Und("loop")
        if k == "switch":
            for val, tgt in t["targets"]:
                go(tgt, trail + [(b, int(val))], seen | {b})
            go(t["otherwise"], trail + [(b, "otherwise")], seen | {b})
            return
        for s in fn.cfg.succ[b]:
            go(s, trail + [(b, None)], seen | {b})
    go(0, [], set())
    return out


def mutator(fn, want):
    """want(value) -> final (t, f); checks every path from every consistent start state"""
    te = fn.terms
    x = ("param", 2)
    errs = []
    npaths = 0
    for p in paths(fn):
        # which `value` does the path assume
        val = None
        for b, lab in p:
            if lab is None or b not in te.switch_term:
                continue
            c = strip(te.switch_term[b][0])
            if c == ("param", 3):
                targets = [int(v) for v, _ in fn.blocks[b]["term"]["targets"]]
                val = lab if lab != "otherwise" else (1 - targets[0] if len(targets) == 1 else None)
            else:
                raise Und("branch on %s" % show(c)[:40])
        for v in ([val] if val is not None else [0, 1]):
            ops = []
            for b, _ in p:
                for cs in [c for c in te.calls if c.bb == b]:
                    if (cs.callee.local or getattr(cs.callee, "res_local", False)) and cs.args and \
                            any(x == ("param", 1) for a_ in cs.args[:1] for x in mir.subterms(a_)) and \
                            cs.callee.name not in ("insert", "remove", "contains", "get", "is_set"):
                        raise Und("the update is delegated to `%s`" % cs.callee.name)
                    if cs.callee.name in ("insert", "remove") and cs.args and "VarSet" in cs.callee.key():
                        w = which_set(resolve(cs.args[0], v))
                        if w is None:
                            raise Und("set operation on %s" % show(cs.args[0])[:50])
                        if strip(cs.args[1]) != x:
                            raise Und("set operation on another variable")
                        ops.append((cs.callee.name, w, cs.line))
            for s0 in STATES:
                s = list(s0)
                for nm, w, _ in ops:
                    s[w] = 1 if nm == "insert" else 0
                npaths += 1
                if tuple(s) != want(v):
                    errs.append("for value=%s from state (x∈true, x∈false)=%s the path [%s] ends in %s, expected %s"
                                % (v, s0, ", ".join("%s %s" % (n_, "true" if w_ == 0 else "false") for n_, w_, _ in ops),
                                   tuple(s), want(v)))
    return errs, npaths


def run(prog):
    out = []

    def one(name, body):
        fn = prog.find1(name=name, self_adt=PMT, unit="rsdd-lib")
        key = "%s:two-sets" % fn.npath
        try:
            errs, note = body(fn)
            out.append(inst("PM", key, VIOLATION if errs else OK, fn, None, errs[0] if errs else note))
        except Und as e:
            out.append(inst("PM", key, UNDECIDED, fn, None, "not interpretable over the two-set abstraction: %s" % e))

    def m_set(fn):
        errs, n = mutator(fn, lambda v: (1, 0) if v else (0, 1))
        return errs, "all %d (path, value, start state) cases end with x in exactly the set named by value" % n

    def m_unset(fn):
        errs, n = mutator(fn, lambda v: (0, 0))
        return errs, "all %d cases end with x in neither set" % n

    def q(spec, pols=(None,)):
        def body(fn):
            errs = []
            for s in STATES:
                for pol in pols:
                    env = {"state": s, "x": ("param", 2), "params": {}, "pol": pol, "get": spec_get, "te": fn.terms}
                    if pol is not None:
                        env["x"] = None
                    got = ev_lit(fn, env) if pol is not None else ev(fn.terms.ret, env)
                    want = spec(s, pol)
                    if got != want:
                        errs.append("in state (x∈true, x∈false)=%s%s it yields %s, expected %s"
                                    % (s, "" if pol is None else " for a literal of polarity %s" % pol, got, want))
            return errs, "agrees with the definition in all %d cases" % (len(STATES) * len(pols))
        return body

    def ev_lit(fn, env):
        # the variable is label(arg2)
        te = fn.terms
        lab = [strip(cs.args[1]) for cs in te.calls if cs.callee.name == "get" and len(cs.args) == 2]
        if not lab or not mir.is_call(lab[0], "label"):
            raise Und("get(label(lit)) not found")
        env["x"] = lab[0]
        return ev(te.ret, env)

    one("set", m_set)
    one("unset", m_unset)
    one("get", q(lambda s, _: spec_get(s)))
    one("is_set", q(lambda s, _: int(s != (0, 0))))
    one("lit_implied", q(lambda s, p: int(spec_get(s) == ("Some", p)), pols=(0, 1)))
    one("lit_neg_implied", q(lambda s, p: int(spec_get(s) == ("Some", 1 - p)), pols=(0, 1)))

    # constructors / iterators: polarity of the set each literal comes from / goes to
    fn = prog.find1(name="from_assignments", self_adt=PMT, unit="rsdd-lib")
    te = fn.terms
    r = strip(te.ret)
    errs = []
    if not (isinstance(r, tuple) and r[0] == "agg" and len(r[4]) == 2):
        out.append(inst("PM", "%s:two-sets" % fn.npath, UNDECIDED, fn, None, "result is not a PartialModel literal"))
    else:
        a = prog.adts.get(PMT)
        order = [f["name"] for f in a["variants"][0]["fields"]]
        locs = {}
        for i, v in enumerate(r[4]):
            v = strip(v)
            if v[0] == "mu":
                locs[v[2] if len(v) > 2 else v[1]] = order[i]
        ins = [cs for cs in te.calls if cs.callee.name == "insert" and "VarSet" in cs.callee.key()]
        seen = 0
        def field_of(tgt):
            for i, v in enumerate(r[4]):
                sv = show(strip(v))
                if sv.startswith("μ") and tgt.endswith("_" + sv.split("_")[-1]):
                    return order[i]
            return None
        for cs in ins:
            # one insert whose target set is chosen by the assignment's value: `if value {&mut t} else {&mut f}`
            a0 = strip(cs.args[0])
            if isinstance(a0, tuple) and a0 and a0[0] == "gamma" and show(strip(a0[1])).endswith("as Some).0") and len(a0[2]) == 2:
                done = 0
                for lab, v in a0[2]:
                    pol_ = 0 if lab == "0" else 1
                    fld_ = field_of(show(strip(v)))
                    if fld_ is None:
                        continue
                    done += 1
                    seen += 1
                    if (fld_ == "true_assignments") != (pol_ == 1):
                        errs.append("line %d: an assignment Some(%s) is inserted into %s" % (cs.line, bool(pol_), fld_))
                if done == 2:
                    continue
            tgt = show(cs.args[0])
            fld = None
            for i, v in enumerate(r[4]):
                sv = show(strip(v))
                # μ<h>_<local>  vs  &mut _<local>
                if sv.startswith("μ") and tgt.endswith("_" + sv.split("_")[-1]):
                    fld = order[i]
            pol = None
            for c, val, _, _ in te.facts_at(cs.bb):
                sc = show(c)
                if sc.endswith("as Some).0") and "discr" not in sc:
                    pol = 0 if val == "0" else 1
            if fld is None or pol is None:
                errs.append("?insert at line %d not classified" % cs.line)
                continue
            seen += 1
            if (fld == "true_assignments") != (pol == 1):
                errs.append("line %d: an assignment Some(%s) is inserted into %s" % (cs.line, bool(pol), fld))
        if seen < 2 and not errs:
            errs.append("expected an insert for Some(true) and one for Some(false)")
        out.append(inst("PM", "%s:two-sets" % fn.npath, VIOLATION if errs else OK, fn, None,
                        errs[0] if errs else "Some(true) → true set, Some(false) → false set"))
    for name in ("assignment_iter", "difference"):
        fn = prog.find1(name=name, self_adt=PMT, unit="rsdd-lib")
        errs = []
        n = 0
        from . import canon
        # private helpers of the type and directly applied closures are looked through
        whole = canon.beta(prog, canon.inline_local(prog, fn.terms.ret, lambda h: h.impl_self == PMT and "{closure" not in h.npath))
        for t in mir.subterms(whole):
            if mir.is_call(t, "map") and len(t[2]) == 2:
                src, clo = strip(t[2][0]), strip(t[2][1])
                sets = {which_set(a) for x in mir.subterms(src) if x[0] == "call" for a in x[2]} - {None}
                if not sets or not (isinstance(clo, tuple) and clo[0] == "agg" and clo[1] == "closure"):
                    continue
                rr = canon.apply_closure(prog, clo, ("elem",))
                rr = strip(rr) if rr is not None else None
                if not (rr and mir.is_call(rr, "new") and len(rr[2]) == 2 and strip(rr[2][1])[0] == "const"):
                    errs.append("?literal constructor of %s not recognised" % clo[2].split("::")[-1])
                    continue
                pol = int(strip(rr[2][1])[2])
                n += 1
                if len(sets) != 1:
                    errs.append("a literal stream mixes the true and the false set (%s)" % show(src)[:80])
                elif (list(sets)[0] == 0) != (pol == 1):
                    errs.append("variables from the %s set become literals of polarity %s"
                                % ("true" if list(sets)[0] == 0 else "false", bool(pol)))
        if n < 2 and not errs:
            errs.append("%sexpected one literal stream per set, found %d" % ("?" if n == 0 else "", n))
        out.append(inst("PM", "%s:two-sets" % fn.npath, VIOLATION if errs else OK, fn, None,
                        errs[0] if errs else "true set ↦ positive literals, false set ↦ negative literals"))
        if name != "difference":
            continue
        # the difference of two models is taken per *literal*: true(self) \ true(other) and false(self) \ false(other).
        # A variable that `other` assigns the other way is still in the difference.
        errs, nd = [], 0
        for t in mir.subterms(whole):
            if mir.is_call(t, "difference") and len(t[2]) == 2:
                a, b = strip(t[2][0]), strip(t[2][1])
                sa, sb = which_set(a), which_set(b)
                if sa is None or sb is None:
                    continue
                nd += 1
                owner = lambda x: [y for y in mir.subterms(x) if y[0] == "param"]
                pa, pb_ = owner(a), owner(b)
                if sa != sb:
                    errs.append("the %s set of one model is subtracted from the %s set of the other: literals of opposite polarity "
                                "do not cancel" % (("true", "false")[sb], ("true", "false")[sa]))
                elif pa and pb_ and (pa[0][1], pb_[0][1]) != (1, 2):
                    errs.append("the difference is taken as other \\ self")
        if nd == 0:
            flt = [t for t in mir.subterms(whole) if mir.is_call(t, "filter") and len(t[2]) == 2]
            blind = False
            for t in flt:
                clo = strip(t[2][1])
                if isinstance(clo, tuple) and clo and clo[0] == "agg" and clo[1] == "closure":
                    for g in prog.lib_fns:
                        if g.npath == clo[2] and any(cs.callee.name in ("is_set", "contains") for cs in g.terms.calls) and \
                                not any(cs.callee.name in ("lit_implied", "lit_neg_implied", "get", "polarity") for cs in g.terms.calls):
                            blind = True
            if blind:
                errs.append("the literals of self are filtered by whether the other model *assigns the variable*, not by whether it "
                            "contains the literal: a variable assigned the opposite way in the other model is dropped from the "
                            "difference (true(self) \\ true(other) and false(self) \\ false(other) keep it)")
            else:
                errs.append("?no set difference per polarity found")
        elif nd < 2 and not errs:
            errs.append("?expected one set difference per polarity, found %d" % nd)
        from .base import verdict_of, errtext
        out.append(inst("PM", "%s:per-literal" % fn.npath, verdict_of(errs), fn, None,
                        errtext(errs) if errs else "true(self) \\ true(other) and false(self) \\ false(other)"))
    out += shared_model_restored(prog)
    out += insert_only(prog)
    return out


def insert_only(prog):
    """A mutator of the two-set model that only inserts (no removal from the opposite set) is sound exactly when the
    variable is not yet assigned.  For every such method (other than `set`, which is checked to retract) every call
    site must guarantee that: the model was created empty in the caller and the labels are pairwise different by
    construction (positions of an enumeration).  A caller that feeds it the labels of a literal list can name one
    variable twice with both polarities, and the variable ends up in both sets (get() says true, the iterator yields
    both literals)."""
    out = []
    fns = [f for f in prog.lib_fns if f.impl_self == PMT and f.kind != "Closure" and f.argc == 3 and "&mut" in f.locals[1]["s"]
           and "bool" in f.locals[3]["s"] and f.name not in ("set",)]
    for f in fns:
        te = f.terms
        try:
            bad = False
            for p in paths(f):
                for v in (0, 1):
                    ops = []
                    for b, lab in p:
                        for cs in [c for c in te.calls if c.bb == b]:
                            if cs.callee.name in ("insert", "remove") and cs.args and "VarSet" in cs.callee.key():
                                w = which_set(resolve(cs.args[0], v))
                                if w is None:
                                    raise Und("set operation on %s" % show(cs.args[0])[:40])
                                ops.append((cs.callee.name, w))
                    # is this path consistent with value v?
                    ok_path = True
                    for b, lab in p:
                        if lab is not None and b in te.switch_term and strip(te.switch_term[b][0]) == ("param", 3):
                            targets = [int(x) for x, _ in f.blocks[b]["term"]["targets"]]
                            val = lab if lab != "otherwise" else (1 - targets[0] if len(targets) == 1 else None)
                            if val is not None and val != v:
                                ok_path = False
                    if not ok_path or not ops:
                        continue
                    for s0 in STATES:
                        s_ = list(s0)
                        for nm, w in ops:
                            s_[w] = 1 if nm == "insert" else 0
                        if tuple(s_) == (1, 1):
                            bad = True
        except Und as e:
            out.append(inst("PM", "%s:insert-only" % f.npath, UNDECIDED, f, None, "not interpretable: %s" % e))
            continue
        if not bad:
            continue
        # insert-only: look at the callers
        errs, n_calls = [], 0
        for g in prog.lib_fns:
            if "::test" in g.npath or not any(b["term"]["k"] == "call" for b in g.blocks):
                continue
            for cs in g.terms.calls:
                if cs.callee.name != f.name or f not in prog.resolve(cs.callee):
                    continue
                n_calls += 1
                lab = strip(cs.args[1])
                distinct = (mir.is_call(lab, "new_usize") or mir.is_call(lab, "new")) and "next(" in show(lab) and \
                    any(x[0] == "field" and x[2] == "0" for x in mir.subterms(lab))
                if mir.is_call(lab, "label") or not distinct:
                    errs.append("%s calls the insert-only `%s` with the variable %s: nothing makes these variables pairwise "
                                "different, and for a variable named twice with both polarities the model ends with it in both "
                                "sets" % (g.name, f.name, show(lab)[:40]))
        out.append(inst("PM", "%s:insert-only" % f.npath, VIOLATION if errs else OK, f, None,
                        errs[0] if errs else "insert-only, and each of its %d call site(s) passes positions of an enumeration" % n_calls))
    return out


def shared_model_restored(prog):
    """A recursive search that works on one shared `&mut PartialModel` instead of a copy per node must hand the model back
    as it received it: on every path from `model.set(x, _)` to a return there is a `model.unset(x)` for the same x.  An
    assignment that survives the call changes what the *caller's* later bound evaluations and leaf values are computed
    for (branches are pruned against bounds of a different sub-problem).  No function of the crate shares a model today
    (the searches clone); the rule ranges over every recursive function with a `&mut PartialModel` parameter."""
    out = []
    n = 0
    for fn in prog.lib_fns:
        if "::test" in fn.npath or fn.name.startswith("test") or fn.kind == "Closure" or fn.impl_self == PMT:
            continue
        ps = [i for i in range(1, fn.argc + 1) if "&mut" in fn.locals[i]["s"] and "PartialModel" in fn.locals[i]["s"]]
        if not ps:
            continue
        te, cfg = fn.terms, fn.cfg
        if not any(cs.callee.name == fn.name and fn in prog.resolve(cs.callee) for cs in te.calls):
            continue
        for p in ps:
            n += 1
            sets = [cs for cs in te.calls if cs.callee.name == "set" and "PartialModel" in cs.callee.key() and cs.args and strip(cs.args[0]) == ("param", p)]
            unsets = [cs for cs in te.calls if cs.callee.name == "unset" and "PartialModel" in cs.callee.key() and cs.args and strip(cs.args[0]) == ("param", p)]
            errs = []
            # a restore is also `model.set(x, saved)` with `saved` the payload of a `model.get(x)` that was read before this
            # function's own assignments (`match saved { Some(v) => set(x, v), None => unset(x) }`)
            gets = [cs for cs in te.calls if cs.callee.name == "get" and "PartialModel" in cs.callee.key() and cs.args and
                    strip(cs.args[0]) in (("param", p), ("deref", ("param", p)))]

            def restores(cs):
                if len(cs.args) < 3:
                    return False
                for g in gets:
                    if strip(g.args[1]) == strip(cs.args[1]) and any(mir.is_call(y, "get") and y[2] == g.term[2] for y in mir.subterms(cs.args[2])):
                        return True
                return False
            restore_sets = [cs for cs in sets if restores(cs)]
            plain_sets = [cs for cs in sets if cs not in restore_sets]
            for cs in restore_sets:
                for g in gets:
                    if any(cfg.can_reach(ps_.bb, g.bb) for ps_ in plain_sets):
                        errs.append("the value put back by `set(%s, saved)` (line %d) is read by a `get` that an assignment of this "
                                    "function can precede: it may be this node's own value, not the caller's" % (show(strip(cs.args[1]))[:30], cs.line))
                        break
            for cs in plain_sets:
                x = strip(cs.args[1])
                undo = {u.bb for u in unsets if strip(u.args[1]) == x} | {r.bb for r in restore_sets if strip(r.args[1]) == x}
                start = fn.blocks[cs.bb]["term"].get("target")
                if start is None:
                    continue
                reach = cfg.reachable_from(start, avoid=undo)
                if any(r in reach for r in cfg.returns):
                    errs.append("`%s.set(%s, _)` (line %d) can reach a return without `unset` of that variable: the caller goes on with a "
                                "model that still carries this node's assignment, so its next bounds and leaf values are those of "
                                "another sub-problem" % (fn.arg_name(p) or "model", show(x)[:30], cs.line))
            out.append(inst("PM", "%s:shared-model-restored" % fn.npath, VIOLATION if errs else OK, fn, None,
                            errs[0] if errs else "every set on the shared model is undone before the function returns"))
    out.append(inst("PM", "shared-model-restored:scope", OK, None, None,
                    "%d recursive function(s) with a `&mut PartialModel` parameter" % n, loc="src/repr/bdd.rs:0"))
    return out
