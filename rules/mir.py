"""Program model over the driver's fact files: functions, CFGs, dominators,
gated value terms (a gated-SSA style def-use reconstruction), call sites.

This is classic static analysis machinery (CFG + dataflow).  No rsdd code is
executed; terms are *names for values*, never evaluated on concrete inputs.
"""
import re
from collections import defaultdict

_LT = re.compile(r"'\w+")


def norm(path):
    """Normalise a def path: drop lifetimes so keys survive lifetime renames."""
    s = _LT.sub("", path)
    s = s.replace("<, ", "<").replace(", >", ">").replace("<>", "").replace("::<>", "")
    s = re.sub(r"<(, )+", "<", s)
    s = s.replace("& ", "&").replace("::::", "::")
    s = re.sub(r"::<>", "", s)
    s = re.sub(r",\s*,", ",", s)
    return s


def last_seg(path):
    # last path segment, ignoring generic args
    depth = 0
    i = len(path)
    j = len(path) - 1
    while j >= 0:
        c = path[j]
        if c == '>':
            depth += 1
        elif c == '<':
            depth -= 1
        elif c == ':' and depth == 0 and j > 0 and path[j - 1] == ':':
            return path[j + 1:i]
        j -= 1
    return path


TRANSPARENT = {"clone", "deref", "deref_mut", "borrow", "borrow_mut", "as_ref", "as_mut", "into",
               "to_owned", "cloned", "copied", "as_slice", "into_iter", "iter", "by_ref"}
PURE = {"is_neg", "neg", "is_true", "is_false", "is_const", "low", "high", "low_raw", "high_raw",
        "label", "polarity", "value", "value_usize", "prime", "sub", "var_safe", "index", "len",
        "is_empty", "true_ptr", "false_ptr", "is_some", "is_none", "is_compl_choice", "negate",
        "one", "zero", "is_neg_var", "is_pos_var", "is_var", "is_bdd", "vtree", "var", "is_occupied",
        "new", "new_usize", "var_at_level", "get", "lt", "num_vars", "unwrap", "to_u64", "sign",
        "var_index", "is_prime_index", "is_prime_var", "is_prime", "min", "max"}
OPS = {"add": "Add", "mul": "Mul", "sub": "Sub", "eq": "Eq", "ne": "Ne", "lt": "Lt", "le": "Le",
       "gt": "Gt", "ge": "Ge", "not": "Not", "rem": "Rem", "div": "Div", "bitxor": "BitXor",
       "bitand": "BitAnd", "bitor": "BitOr"}
OP_TRAITS = ("std::ops::", "std::cmp::PartialEq", "std::cmp::PartialOrd", "core::ops::", "core::cmp::")


class Callee:
    __slots__ = ("def_", "res", "name", "trait", "targs", "local", "res_local", "closure", "args_s", "fterm")

    def __init__(self, j):
        self.def_ = norm(j["def"])
        self.res = norm(j["res"]) if j.get("res") else None
        self.name = last_seg(self.def_)
        self.trait = norm(j["trait"]) if j.get("trait") else None
        self.targs = [norm(t) for t in j.get("targs", [])]
        self.local = j.get("local", False)
        self.res_local = j.get("res_local", False)
        self.args_s = j.get("args", "")
        self.closure = self.res if (self.res and "{closure#" in self.res) else None
        self.fterm = None        # for a call through a function value: the term of that value

    def key(self):
        return self.res or self.def_

    def __eq__(self, o):
        return isinstance(o, Callee) and self.def_ == o.def_ and self.res == o.res and self.args_s == o.args_s

    def __hash__(self):
        return hash((self.def_, self.res))

    def __repr__(self):
        return "Callee(%s -> %s)" % (self.def_, self.res)


class Fn:
    def __init__(self, j, unit):
        self.j = j
        self.unit = unit
        self.path = j["path"]
        self.npath = norm(j["path"])
        self.name = last_seg(self.npath)
        self.kind = j["kind"]
        self.file = j["file"]
        self.line = j["line"]
        self.line_end = j.get("line_end", j["line"])
        self.argc = j["argc"]
        self.blocks = j["blocks"]
        self.locals = j["locals"]
        self.parent = norm(j["parent"]) if j.get("parent") else None
        self.impl_self = (j.get("impl_self") or {}).get("adt")
        self.impl_trait = norm(j["impl_trait"]) if j.get("impl_trait") else None
        self.in_trait = norm(j["in_trait"]) if j.get("in_trait") else None
        self.reachable = j.get("reachable", False)
        self.vis_pub = j.get("vis_pub", False)
        self.no_mangle = j.get("no_mangle", False)
        self.abi = j.get("abi", "Rust")
        self.debug = j.get("debug", [])
        self._cfg = None
        self._terms = None

    def loc(self, line=None):
        return "%s:%d" % (self.file, line if line else self.line)

    def __repr__(self):
        return "Fn(%s)" % self.npath

    # ---- names
    def arg_name(self, i):
        """user name of MIR argument local i (1-based), if any"""
        for d in self.debug:
            if d.get("arg") == i and not d["place"]["proj"]:
                return d["name"]
        for d in self.debug:
            if d["place"]["l"] == i and not d["place"]["proj"]:
                return d["name"]
        return None

    def local_name(self, l):
        for d in self.debug:
            if d["place"]["l"] == l and not d["place"]["proj"]:
                return d["name"]
        return None

    def arg_index(self, name):
        for d in self.debug:
            if d["name"] == name and not d["place"]["proj"] and 1 <= d["place"]["l"] <= self.argc:
                return d["place"]["l"]
        return None

    # ---- CFG
    @property
    def cfg(self):
        if self._cfg is None:
            self._cfg = CFG(self)
        return self._cfg

    @property
    def terms(self):
        if self._terms is None:
            self._terms = TermEngine(self)
        return self._terms


def term_succs(t):
    k = t["k"]
    if k == "goto":
        return [t["target"]]
    if k == "switch":
        out = []
        for _, b in t["targets"]:
            if b not in out:
                out.append(b)
        if t["otherwise"] not in out:
            out.append(t["otherwise"])
        return out
    if k in ("call", "drop", "assert"):
        return [t["target"]] if t.get("target") is not None else []
    return []


class CFG:
    def __init__(self, fn):
        self.fn = fn
        n = len(fn.blocks)
        self.succ = [term_succs(b["term"]) for b in fn.blocks]
        # reachable (normal edges only) from entry
        seen = set()
        order = []
        stack = [(0, iter(self.succ[0]))]
        seen.add(0)
        while stack:
            b, it = stack[-1]
            adv = False
            for s in it:
                if s not in seen:
                    seen.add(s)
                    stack.append((s, iter(self.succ[s])))
                    adv = True
                    break
            if not adv:
                order.append(b)
                stack.pop()
        self.rpo = list(reversed(order))
        self.reach = seen
        self.rpo_index = {b: i for i, b in enumerate(self.rpo)}
        self.pred = defaultdict(list)
        for b in self.rpo:
            for s in self.succ[b]:
                self.pred[s].append(b)
        self.idom = self._dominators()
        self.back_edges = [(u, h) for u in self.rpo for h in self.succ[u] if self.dominates(h, u)]
        self.loop_headers = {}
        for u, h in self.back_edges:
            body = self.loop_headers.setdefault(h, set([h]))
            stack = [u]
            while stack:
                x = stack.pop()
                if x in body:
                    continue
                body.add(x)
                stack.extend(self.pred[x])
        self.returns = [b for b in self.rpo if fn.blocks[b]["term"]["k"] == "return"]
        self._ipdom = None

    def _dominators(self):
        idom = {0: 0}
        changed = True
        while changed:
            changed = False
            for b in self.rpo[1:]:
                new = None
                for p in self.pred[b]:
                    if p in idom:
                        new = p if new is None else self._intersect(idom, p, new)
                if new is not None and idom.get(b) != new:
                    idom[b] = new
                    changed = True
        return idom

    def _intersect(self, idom, a, b):
        ri = self.rpo_index
        while a != b:
            while ri[a] > ri[b]:
                a = idom[a]
            while ri[b] > ri[a]:
                b = idom[b]
        return a

    def dominates(self, a, b):
        """a dominates b (reflexive)"""
        if a not in self.idom or b not in self.idom:
            return False
        while True:
            if a == b:
                return True
            if b == 0:
                return False
            b = self.idom[b]

    def can_reach(self, src, dst, avoid=()):
        seen = set()
        stack = [src]
        while stack:
            x = stack.pop()
            if x in seen or x in avoid:
                continue
            seen.add(x)
            if x == dst:
                return True
            stack.extend(self.succ[x])
        return False

    def reachable_from(self, src, avoid=()):
        seen = set()
        stack = [src]
        while stack:
            x = stack.pop()
            if x in seen or x in avoid:
                continue
            seen.add(x)
            stack.extend(self.succ[x])
        return seen

    def edge_facts(self):
        """For each block: list of (switch_block, value) facts that hold on every path to it.
        value is a discriminant string, or ('not', (v1, v2,...)) for the otherwise edge."""
        facts = {0: []}
        own = {}
        for d in self.rpo:
            t = self.fn.blocks[d]["term"]
            if t["k"] != "switch":
                continue
            tg = defaultdict(list)
            for v, b in t["targets"]:
                tg[b].append(v)
            allv = tuple(v for v, _ in t["targets"])
            o = t["otherwise"]
            for s in set(list(tg.keys()) + [o]):
                if len(self.pred[s]) != 1:
                    continue
                if s == o and s in tg:
                    continue  # ambiguous edge
                if s == o:
                    own[s] = (d, ("not", allv))
                elif len(tg[s]) == 1:
                    own[s] = (d, tg[s][0])
                else:
                    own[s] = (d, ("in", tuple(tg[s])))
        for b in self.rpo:
            if b == 0:
                continue
            base = list(facts.get(self.idom[b], []))
            if b in own:
                base.append(own[b])
            facts[b] = base
        return facts


# ------------------------------------------------------------------ terms
TOP = ("top",)


def is_call(t, name=None):
    return isinstance(t, tuple) and t and t[0] == "call" and (name is None or t[1].name == name)


class CallSite:
    __slots__ = ("fn", "bb", "callee", "args", "dest", "term", "line", "exp", "arg_ops")

    def __init__(self, fn, bb, callee, args, dest, term, line, exp, arg_ops):
        self.fn, self.bb, self.callee, self.args = fn, bb, callee, args
        self.dest, self.term, self.line, self.exp, self.arg_ops = dest, term, line, exp, arg_ops

    def __repr__(self):
        return "CallSite(%s @%s bb%d)" % (self.callee.key(), self.fn.loc(self.line), self.bb)


class TermEngine:
    """Forward pass in reverse post-order computing a term for every local at every block
    entry/exit; joins are gated (gamma) when the join's immediate dominator is the switch
    that separates the incoming edges, plain phi otherwise; loop-carried locals get mu terms."""

    def __init__(self, fn):
        self.fn = fn
        self.cfg = fn.cfg
        self.calls = []          # CallSite list in RPO order
        self.calls_by_bb = {}
        self.stores = []         # (bb, place_term, value_term, line)
        self.state_in = {}
        self.state_out = {}
        self.switch_term = {}    # bb -> (term, variants map or None)
        self.ret = None
        self.mu_init = {}
        self.mu_update = {}
        self.aggs = []           # (bb, term, line) for every aggregate built
        self._discr_variants = {}
        self._run()

    # -- loops: which locals are written in a natural loop
    def _loop_written(self, body):
        w = set()
        for b in body:
            blk = self.fn.blocks[b]
            for st in blk["stmts"]:
                if st["k"] == "assign":
                    w.add(st["lhs"]["l"])
                    rv = st["rv"]
                    if rv["k"] in ("ref", "rawptr") and rv.get("mut") and \
                            not any(e["p"] == "deref" for e in rv["place"]["proj"]):
                        w.add(rv["place"]["l"])
            t = blk["term"]
            if t["k"] == "call":
                w.add(t["dest"]["l"])
        return w

    def _run(self):
        fn, cfg = self.fn, self.cfg
        nloc = len(fn.locals)
        loop_w = {h: self._loop_written(body) for h, body in cfg.loop_headers.items()}
        back = set(cfg.back_edges)
        for b in cfg.rpo:
            preds = [p for p in cfg.pred[b] if (p, b) not in back and p in self.state_out]
            if b == 0:
                st = {}
                for i in range(1, fn.argc + 1):
                    st[i] = ("param", i)
            elif len(preds) == 1 and not (b in cfg.loop_headers):
                st = dict(self.state_out[preds[0]])
            else:
                st = self._merge(b, preds)
            if b in cfg.loop_headers:
                for l in loop_w[b]:
                    self.mu_init[(b, l)] = st.get(l, TOP)
                    st[l] = ("mu", b, l)
            self.state_in[b] = dict(st)
            self._block(b, st)
            self.state_out[b] = st
        for (u, h) in cfg.back_edges:
            if u in self.state_out:
                for l in loop_w[h]:
                    self.mu_update.setdefault((h, l), []).append(self.state_out[u].get(l, TOP))
        self._refusing_gets()
        rets = [self.state_out[b].get(0, TOP) for b in cfg.returns if b in self.state_out]
        self.ret_by_block = {b: self.state_out[b].get(0, TOP) for b in cfg.returns if b in self.state_out}
        if len(set(rets)) == 1:
            self.ret = rets[0]
        elif rets:
            self.ret = ("phi", -1, tuple((b, t) for b, t in self.ret_by_block.items()))
        else:
            self.ret = TOP

    def _refusing_gets(self):
        """`let Some(x) = tab.get(i) else { panic!(..) }` (or a `match` whose `None` arm diverges) refuses the same
        indices as `tab[i]`: an Index call site is recorded next to the `get`, so that the rules about table accesses
        read it like the indexing expression it replaces"""
        cfg = self.cfg
        extra = []
        for cs in self.calls:
            if cs.callee.name not in ("get", "get_mut") or len(cs.args) != 2 or cs.callee.local or \
                    not ("slice" in cs.callee.key() or "Vec" in cs.callee.key()):
                continue
            for b, (c, vm) in self.switch_term.items():
                if not (isinstance(c, tuple) and c and c[0] == "discr" and strip_refs(c[1]) == strip_refs(cs.term)):
                    continue
                t = self.fn.blocks[b]["term"]
                none_tgts = [s_ for v, s_ in t["targets"] if v == "0"]
                if not none_tgts and t.get("otherwise") is not None and all(v != "0" for v, _ in t["targets"]):
                    none_tgts = [t["otherwise"]]
                if none_tgts and not any(cfg.can_reach(nt, r) or nt == r for nt in none_tgts for r in cfg.returns):
                    mut_ = cs.callee.name == "get_mut"
                    callee = Callee({"def": "std::ops::IndexMut::index_mut" if mut_ else "std::ops::Index::index",
                                     "res": "<std::vec::Vec<T, A> as std::ops::IndexMut<I>>::index_mut" if mut_ else
                                            "<std::vec::Vec<T, A> as std::ops::Index<I>>::index",
                                     "trait": "std::ops::IndexMut" if mut_ else "std::ops::Index", "local": False})
                    extra.append(CallSite(self.fn, cs.bb, callee, cs.args, cs.dest, ("call", callee, cs.args), cs.line, cs.exp, cs.arg_ops))
                    break
        self.calls += extra

    def _edge_of(self, d, p, j):
        """Which successor edge(s) of switch block d does the path d ->* p -> j use?
        returns the successor s of d such that s dominates p (or s == j when p == d)."""
        cfg = self.cfg
        if p == d:
            return j
        for s in cfg.succ[d]:
            if len(cfg.pred[s]) == 1 and cfg.dominates(s, p):
                return s
        return None

    def _merge(self, b, preds):
        cfg = self.cfg
        if not preds:
            return {}
        keys = set()
        for p in preds:
            keys.update(self.state_out[p].keys())
        st = {}
        d = cfg.idom.get(b)
        gate = None
        if d is not None and self.fn.blocks[d]["term"]["k"] == "switch" and d in self.switch_term:
            t = self.fn.blocks[d]["term"]
            edge_vals = defaultdict(list)
            for v, s in t["targets"]:
                edge_vals[s].append(v)
            o = t["otherwise"]
            ok = True
            pe = {}
            for p in preds:
                s = self._edge_of(d, p, b)
                if s is None:
                    ok = False
                    break
                if s == o and s in edge_vals:
                    ok = False
                    break
                pe[p] = s
            if ok:
                gate = (d, pe, edge_vals, o, tuple(v for v, _ in t["targets"]))
        for l in keys:
            vals = [self.state_out[p].get(l, TOP) for p in preds]
            if all(v == vals[0] for v in vals):
                st[l] = vals[0]
                continue
            if gate:
                d_, pe, edge_vals, o, allv = gate
                by_edge = {}
                good = True
                for p, v in zip(preds, vals):
                    s = pe[p]
                    if s in by_edge and by_edge[s] != v:
                        good = False
                        break
                    by_edge[s] = v
                if good:
                    arms = []
                    for s, v in by_edge.items():
                        if s == o:
                            lab = ("not", allv)
                        elif len(edge_vals[s]) == 1:
                            lab = edge_vals[s][0]
                        else:
                            lab = ("in", tuple(edge_vals[s]))
                        arms.append((lab, v))
                    arms.sort(key=repr)
                    st[l] = ("gamma", self.switch_term[d_][0], tuple(arms), d_)
                    continue
            alts = []
            for p, v in zip(preds, vals):
                if (p, v) not in alts:
                    alts.append((p, v))
            st[l] = ("phi", b, tuple(alts))
        return st

    # -- places
    def read_place(self, st, place):
        t = st.get(place["l"])
        if t is None:
            t = ("local", place["l"])
        return self._project(st, t, place["proj"])

    def _project(self, st, t, proj):
        for e in proj:
            p = e["p"]
            if p == "deref":
                if isinstance(t, tuple) and t[0] == "mutref":
                    t = st.get(t[1], ("local", t[1]))
                # otherwise transparent
            elif p == "field":
                t = self._field(t, e)
            elif p == "downcast":
                t = ("as", t, e["v"])
            elif p == "index":
                t = ("index", t, st.get(e["l"], ("local", e["l"])))
            elif p == "cindex":
                t = ("index", t, ("const", "usize", str(e["off"]) + ("e" if e["from_end"] else "")))
            elif p == "subslice":
                t = ("subslice", t, e["from"], e["to"], e["from_end"])
            else:
                t = ("proj", t)
        return t

    def _field(self, t, e):
        # `*boxed` lowers to boxed.0.pointer (Box -> Unique -> NonNull): value-transparent
        if (e["name"] == "0" and e.get("owner") == "std::boxed::Box") or \
                (e["name"] == "pointer" and e.get("owner") == "std::ptr::Unique"):
            return t
        if isinstance(t, tuple):
            if t[0] == "agg" and t[1] in ("tuple", "adt", "closure"):
                i = e["i"]
                ops = t[4]
                if i < len(ops):
                    return ops[i]
            if t[0] == "upd" and t[2] == e["name"]:
                return t[3]
            if t[0] == "param" and self.fn.kind == "Closure" and t[1] == 1:
                return ("upvar", e["name"])
        return ("field", t, e["name"], e.get("owner"))

    def _operand(self, st, op):
        k = op["k"]
        if k in ("copy", "move"):
            return self.read_place(st, op["place"])
        if k == "const":
            if "fn" in op:
                return ("fnref", Callee(op["fn"]))
            if "closure" in op:
                return ("closure_ref", norm(op["closure"]))
            if "param" in op:
                return ("cparam", op["param"])
            if "val" in op:
                return ("const", op["ty"], op["val"])
            if "uneval" in op:
                if "ptxt" in op and "val" not in op:
                    # a promoted constant wrapping one literal: the literal itself (references are transparent in terms)
                    return ("const", op["ty"].lstrip("&"), op["ptxt"])
                return ("constitem", norm(op["uneval"]), op.get("val"))
            return ("const", op["ty"], op.get("txt", "?"))
        return TOP

    def _rvalue(self, st, rv, bb, line):
        k = rv["k"]
        if k == "use":
            return self._operand(st, rv["op"])
        if k == "ref":
            pl = rv["place"]
            if rv["mut"] and not pl["proj"]:
                return ("mutref", pl["l"])
            # &mut *r  (reborrow of a mutref)
            base = st.get(pl["l"])
            if rv["mut"] and isinstance(base, tuple) and base[0] == "mutref" and \
                    all(e["p"] == "deref" for e in pl["proj"]):
                return base
            return self.read_place(st, pl)
        if k == "rawptr":
            return ("rawptr", self.read_place(st, rv["place"]), rv.get("mut", False))
        if k == "cast":
            a = self._operand(st, rv["op"])
            if rv["kind"] in ("PointerCoercion", "PtrToPtr", "Transmute"):
                return ("cast", rv["kind"], a, rv["ty"]["s"])
            return ("cast", rv["kind"], a, rv["ty"]["s"])
        if k == "bin":
            return ("bin", rv["op"], self._operand(st, rv["a"]), self._operand(st, rv["b"]))
        if k == "un":
            return ("un", rv["op"], self._operand(st, rv["a"]))
        if k == "discr":
            base = self.read_place(st, rv["place"])
            t = ("discr", base)
            if rv.get("variants"):
                self._discr_variants[t] = {v: n for v, n in rv["variants"]}
            return t
        if k == "agg":
            ops = tuple(self._operand(st, o) for o in rv["ops"])
            kind = rv["agg"]
            if kind == "adt":
                t = ("agg", "adt", norm(rv["adt"]), rv["variant"], ops, tuple(rv.get("fields", [])))
            elif kind == "closure":
                t = ("agg", "closure", norm(rv["closure"]), None, ops, tuple(rv.get("fields", [])))
            elif kind == "tuple":
                t = ("agg", "tuple", None, None, ops, ())
            else:
                t = ("agg", kind, None, None, ops, ())
            self.aggs.append((bb, t, line))
            return t
        if k == "repeat":
            return ("repeat", self._operand(st, rv["op"]), rv["n"])
        return ("other", rv.get("txt", ""))

    def _assign(self, st, lhs, val, bb, line):
        l = lhs["l"]
        proj = lhs["proj"]
        if not proj:
            st[l] = val
            return
        base = st.get(l)
        if isinstance(base, tuple) and base[0] == "mutref" and proj[0]["p"] == "deref":
            tgt = base[1]
            rest = proj[1:]
            if not rest:
                st[tgt] = val
            else:
                self._assign(st, {"l": tgt, "proj": rest}, val, bb, line)
            return
        if len(proj) == 1 and proj[0]["p"] == "field":
            old = st.get(l, ("local", l))
            if isinstance(old, tuple) and old[0] == "agg" and old[1] in ("tuple", "adt", "closure") \
                    and proj[0]["i"] < len(old[4]):
                ops = list(old[4])
                ops[proj[0]["i"]] = val
                st[l] = (old[0], old[1], old[2], old[3], tuple(ops), old[5])
            else:
                st[l] = ("upd", old, proj[0]["name"], val)
            return
        # memory store through a pointer / into an element: recorded, not modelled
        pt = self.read_place(st, lhs)
        self.stores.append((bb, pt, val, line))
        if not any(e["p"] == "deref" for e in proj):
            old = st.get(l, ("local", l))
            st[l] = ("updx", old, bb, len(self.stores))

    def _block(self, b, st):
        fn = self.fn
        blk = fn.blocks[b]
        for st_ in blk["stmts"]:
            if st_["k"] != "assign":
                continue
            val = self._rvalue(st, st_["rv"], b, st_["line"])
            self._assign(st, st_["lhs"], val, b, st_["line"])
        t = blk["term"]
        k = t["k"]
        if k == "switch":
            c = self._operand(st, t["op"])
            self.switch_term[b] = (c, self._discr_variants.get(c))
        elif k == "call":
            args = tuple(self._operand(st, a) for a in t["args"])
            if "fn" in t:
                callee = Callee(t["fn"])
            else:
                ft = self._operand(st, t["fnop"])
                callee = Callee({"def": "<indirect>", "res": None, "local": False})
                callee.targs = [repr(ft)]
                callee.fterm = ft
            # `tab.get(i).expect("..")` / `.unwrap()` is the indexing expression `tab[i]` with a better message: it refuses
            # the same indices.  Seen as the Index call it stands for, every rule about table accesses reads it.
            if callee.name in ("unwrap", "expect", "unwrap_unchecked") and "ption" in (callee.def_ or "") and args:
                g = args[0]
                while isinstance(g, tuple) and g and g[0] in ("ref", "deref"):
                    g = g[1]
                if isinstance(g, tuple) and g and g[0] == "call" and g[1].name in ("get", "get_mut") and len(g[2]) == 2 and \
                        ("slice" in g[1].key() or "Vec" in g[1].key()) and not g[1].local:
                    mut_ = g[1].name == "get_mut"
                    callee = Callee({"def": "std::ops::IndexMut::index_mut" if mut_ else "std::ops::Index::index",
                                     "res": "<std::vec::Vec<T, A> as std::ops::IndexMut<I>>::index_mut" if mut_ else
                                            "<std::vec::Vec<T, A> as std::ops::Index<I>>::index",
                                     "trait": "std::ops::IndexMut" if mut_ else "std::ops::Index", "local": False})
                    args = tuple(g[2])
            site = (b,)
            nm = callee.name
            term = None
            is_op_trait = callee.trait and callee.trait.startswith(OP_TRAITS)
            if is_op_trait and nm in OPS:
                if len(args) == 2:
                    term = ("bin", OPS[nm], args[0], args[1])
                elif len(args) == 1:
                    term = ("un", OPS[nm], args[0])
            if term is None and nm in TRANSPARENT and len(args) == 1 and not callee.local:
                term = args[0]
            if term is None:
                if nm in PURE:
                    term = ("call", callee, args)
                else:
                    term = ("call", callee, args, site)
            cs = CallSite(fn, b, callee, args, t["dest"], term, t["line"], t.get("exp", False), t["args"])
            self.calls.append(cs)
            self.calls_by_bb[b] = cs
            # `slot.replace(v)` / `slot.insert(v)` on an Option place is the assignment `slot = Some(v)` (and hands back the
            # old content): recorded as the store it is, so that rules about what is written where read it
            if nm in ("replace", "insert") and "ption" in (callee.def_ or "") and len(args) == 2 and \
                    isinstance(args[0], tuple) and args[0] and args[0][0] == "call" and args[0][1].name in ("index_mut", "get_unchecked_mut"):
                self.stores.append((b, args[0], ("agg", "adt", "std::option::Option", "Some", (args[1],), ("0",)), t["line"]))
            # mutable references passed to the callee: the referent is modified
            if nm == "swap" and (callee.def_ or "").endswith("mem::swap") and len(args) == 2 and \
                    all(isinstance(a, tuple) and a[0] == "mutref" for a in args) and args[0][1] != args[1][1]:
                # std::mem::swap(&mut x, &mut y) on two locals: exchange their values
                l1, l2 = args[0][1], args[1][1]
                st[l1], st[l2] = st.get(l2, ("local", l2)), st.get(l1, ("local", l1))
            else:
              for a in args:
                if isinstance(a, tuple) and a[0] == "mutref":
                    old = st.get(a[1], ("local", a[1]))
                    st[a[1]] = ("mut", site, callee, old)
            self._assign(st, t["dest"], term, b, t["line"])

    # -- queries
    def name_of(self, term, bb):
        """debug name of a user variable that holds `term` at block bb, if any"""
        st = self.state_out.get(bb, {})
        for d in self.fn.debug:
            if not d["place"]["proj"]:
                v = st.get(d["place"]["l"])
                if v == term:
                    return d["name"]
                if isinstance(v, tuple) and v and v[0] != "top" and strip_refs(v) == term:
                    return d["name"]
        return None

    def edge_guards(self, b):
        """one fact list per way of entering block b: the dominating facts of the predecessor plus the outcome of the
        predecessor's own test on the edge into b (`if a || b {..}`: the block is entered from two tests)"""
        out = []
        for p in self.cfg.pred.get(b, []):
            fs = list(self.facts_at(p))
            t = self.fn.blocks[p]["term"]
            if t["k"] == "switch" and p in self.switch_term:
                c, vm = self.switch_term[p]
                labs = [v for v, s_ in t["targets"] if s_ == b]
                if labs and t["otherwise"] != b:
                    for v in labs[:1]:
                        fs.append((c, v, vm, p))
                elif t["otherwise"] == b and not labs:
                    fs.append((c, ("not", tuple(v for v, _ in t["targets"])), vm, p))
            out.append(fs)
        return out or [list(self.facts_at(b))]

    def entry_guards(self, b):
        """fact lists, one per way of reaching block b: b's straight-line chain of single predecessors is followed up
        to the first block with several predecessors (`if p || q { return X }`: X's block hangs below such a join),
        whose incoming edges each contribute their own facts"""
        j = b
        steps = 0
        while len(self.cfg.pred.get(j, [])) == 1 and steps < 20:
            p = self.cfg.pred[j][0]
            if self.fn.blocks[p]["term"]["k"] == "switch":
                break
            j = p
            steps += 1
        if len(self.cfg.pred.get(j, [])) > 1:
            return self.edge_guards(j)
        return [list(self.facts_at(b))]

    def facts_at(self, b):
        """dominating branch facts at block b as [(cond_term, value, variants)]"""
        ef = getattr(self, "_ef", None)
        if ef is None:
            ef = self._ef = self.cfg.edge_facts()
        out = []
        for d, v in ef.get(b, []):
            if d in self.switch_term:
                c, vm = self.switch_term[d]
                out.append((c, v, vm, d))
        # a Boolean assembled by short-circuit operators is a join of constants and one last test
        # (`let flip = a || b || c`): knowing its value pins the alternative it came through, and with it the tests
        # that dominate that alternative
        extra, seen = [], {(repr(c), repr(v)) for c, v, _, _ in out}
        depth = getattr(self, "_fa_depth", 0)
        if depth < 3:
            self._fa_depth = depth + 1
            try:
                for c, v, vm, d in list(out):
                    if not (isinstance(c, tuple) and c and c[0] == "phi") or vm:
                        continue
                    want = 0 if v == "0" else 1
                    cands = []
                    for pb, alt in c[2]:
                        if isinstance(alt, tuple) and alt and alt[0] == "const":
                            if int(alt[2]) == want:
                                cands.append((pb, alt))
                        else:
                            cands.append((pb, alt))
                    if len(cands) != 1:
                        continue
                    pb, alt = cands[0]
                    pbn = int(str(pb).replace("bb", "")) if not isinstance(pb, int) else pb
                    if not (isinstance(alt, tuple) and alt and alt[0] == "const"):
                        extra.append((alt, v, None, d))
                    for f in self.facts_at(pbn):
                        extra.append(f)
            finally:
                self._fa_depth = depth
        for f in extra:
            k = (repr(f[0]), repr(f[1]))
            if k not in seen:
                seen.add(k)
                out.append(f)
        # a test of a gated Boolean (`let ok = !a && !b; if ok`): γ(a; 0→Not(b), else→false) being true pins the
        # alternative it came through (a is false) and the value of that alternative (Not(b) is true, so b is false)
        work = list(out)
        rounds = 0
        while work and rounds < 64:
            rounds += 1
            c, v, vm, d = work.pop()
            if vm or not isinstance(c, tuple) or not c:
                continue
            truthy = v != "0"
            new = []
            if c[0] == "un" and c[1] == "Not":
                new.append((c[2], "0" if truthy else ("not", ("0",)), None, d))
            elif c[0] == "call" and CURRENT is not None and (c[1].local or getattr(c[1], "res_local", False)) and rounds < 24:
                # a test of a private predicate helper (`fn is_stored_negated(x) { a(x) || b(x) || c(x) }`): knowing its
                # value is knowing the value of its body with the arguments in place
                try:
                    hs = [h for h in CURRENT.resolve(c[1]) if h.kind != "Closure" or c[1].name in ("call", "call_mut", "call_once")]
                except Exception:
                    hs = []
                # (the predicates of the pointer types themselves — is_neg, is_false, .. — are known to the rules by
                # contract and stay opaque)
                if len(hs) == 1 and hs[0].terms is not self and hs[0].terms.ret is not None and \
                        (hs[0].locals[0]["s"] if hs[0].locals else "") == "bool" and not hs[0].cfg.loop_headers and \
                        not (hs[0].impl_self or "").endswith(("BddPtr", "SddPtr", "Literal", "VarLabel", "PartialModel")):
                    from . import canon as _canon
                    hte = hs[0].terms
                    from .base import strip as _strip
                    body = _strip(hte.ret)
                    ps = {i + 1: a for i, a in enumerate(c[2])}
                    ups = {}
                    if hs[0].kind == "Closure" and c[1].name in ("call", "call_mut", "call_once") and len(c[2]) == 2:
                        # a predicate bound to a local closure: its parameters are the elements of the argument tuple,
                        # its captures those of the closure literal
                        tup = _strip(c[2][1])
                        clo = _strip(c[2][0])
                        while isinstance(clo, tuple) and clo and clo[0] in ("ref", "deref"):
                            clo = _strip(clo[1])
                        if isinstance(tup, tuple) and tup[:2] == ("agg", "tuple"):
                            ps = {i + 2: a for i, a in enumerate(tup[4])}
                        if isinstance(clo, tuple) and clo and clo[0] == "agg" and clo[1] == "closure" and len(clo) > 5 and clo[5]:
                            ups = dict(zip(clo[5], clo[4]))
                    if isinstance(body, tuple) and body and body[0] == "phi":
                        # a short-circuit chain returns through a join: the value pins the alternative, and the tests
                        # that dominate that alternative inside the helper hold for the arguments
                        cands = []
                        for pb, alt in body[2]:
                            if isinstance(alt, tuple) and alt and alt[0] == "const":
                                if (str(alt[2]) in ("1", "true")) == truthy:
                                    cands.append((pb, alt))
                            else:
                                cands.append((pb, alt))
                        if len(cands) == 1:
                            pb, alt = cands[0]
                            pbn = int(str(pb).replace("bb", "")) if not isinstance(pb, int) else pb
                            if not (isinstance(alt, tuple) and alt and alt[0] == "const") and not _canon.has_unknown(alt):
                                new.append((_canon.subst(alt, ps, ups), v, None, d))
                            for (c2, v2, vm2, _d2) in hte.facts_at(pbn):
                                if not _canon.has_unknown(c2):
                                    new.append((_canon.subst(c2, ps, ups), v2, vm2, d))
                    elif not _canon.has_unknown(body):
                        new.append((_canon.subst(body, ps, ups), v, None, d))
            elif c[0] == "gamma" and len(c[2]) == 2:
                cands = []
                for lab, alt in c[2]:
                    if isinstance(alt, tuple) and alt and alt[0] == "const" and str(alt[2]) in ("0", "1", "false", "true"):
                        if (str(alt[2]) in ("1", "true")) == truthy:
                            cands.append((lab, alt))
                    else:
                        cands.append((lab, alt))
                if len(cands) == 1:
                    lab, alt = cands[0]
                    if isinstance(lab, str) or (isinstance(lab, tuple) and lab and lab[0] == "not"):
                        new.append((c[1], lab, self._discr_variants.get(c[1]), d))
                    if not (isinstance(alt, tuple) and alt and alt[0] == "const"):
                        new.append((alt, v, None, d))
            for f in new:
                k = (repr(f[0]), repr(f[1]))
                if k not in seen:
                    seen.add(k)
                    out.append(f)
                    work.append(f)
        return out


def strip_refs(t):
    return t


# ------------------------------------------------------------------ printing
def stable(t, fn=None):
    """line- and local-number-free rendering for instance keys"""
    import re as _re
    s = show(t)
    def nm(m):
        n = fn.local_name(int(m.group(1))) if fn is not None else None
        return n or "_"
    s = _re.sub(r"&mut _(\d+)", lambda m: "&mut " + nm(m), s)
    s = _re.sub(r"μ\d+_(\d+)", lambda m: "μ" + nm(m), s)
    s = _re.sub(r"(?<![A-Za-z0-9])_(\d+)", lambda m: nm(m), s)
    s = _re.sub(r"φ\d+", "φ", s)
    s = _re.sub(r"bb\d+:", "", s)
    return s


def show(t, depth=0):
    if depth > 8:
        return "…"
    if not isinstance(t, tuple) or not t:
        return repr(t)
    k = t[0]
    if k == "param":
        return "arg%d" % t[1]
    if k == "upvar":
        return "^" + t[1]
    if k == "const":
        return "%s" % (t[2],)
    if k == "cparam":
        return t[1]
    if k == "constitem":
        return last_seg(t[1])
    if k == "call":
        return "%s(%s)" % (t[1].name, ", ".join(show(a, depth + 1) for a in t[2]))
    if k == "field":
        return "%s.%s" % (show(t[1], depth + 1), t[2])
    if k == "as":
        return "(%s as %s)" % (show(t[1], depth + 1), t[2])
    if k == "bin":
        return "(%s %s %s)" % (show(t[2], depth + 1), t[1], show(t[3], depth + 1))
    if k == "un":
        return "%s(%s)" % (t[1], show(t[2], depth + 1))
    if k == "discr":
        return "discr(%s)" % show(t[1], depth + 1)
    if k == "agg":
        nm = t[2] or t[1]
        if t[3]:
            nm = "%s::%s" % (last_seg(nm), t[3])
        return "%s{%s}" % (last_seg(nm) if nm else "", ", ".join(show(a, depth + 1) for a in t[4]))
    if k == "gamma":
        return "γ(%s | %s)" % (show(t[1], depth + 1),
                               ", ".join("%s→%s" % (l, show(v, depth + 1)) for l, v in t[2]))
    if k == "phi":
        return "φ%s(%s)" % (t[1], ", ".join("bb%s:%s" % (p, show(v, depth + 1)) for p, v in t[2]))
    if k == "mu":
        return "μ%d_%d" % (t[1], t[2])
    if k == "mutref":
        return "&mut _%d" % t[1]
    if k == "mut":
        return "mut[%s](%s)" % (t[2].name, show(t[3], depth + 1))
    if k == "cast":
        return "(%s as %s)" % (show(t[2], depth + 1), t[3])
    if k == "index":
        return "%s[%s]" % (show(t[1], depth + 1), show(t[2], depth + 1))
    if k == "local":
        return "_%d" % t[1]
    if k == "fnref":
        return "fn:" + t[1].name
    if k == "hashof":
        return "hashof(%s)" % ", ".join(show(a, depth + 1) for a in t[1])
    return "%s(…)" % k


def walk(t, f, seen=None):
    """pre-order walk over a term; f(t) -> bool (False = do not descend)"""
    if seen is None:
        seen = set()
    if not isinstance(t, tuple):
        return
    if id(t) in seen:
        return
    seen.add(id(t))
    if f(t) is False:
        return
    for x in t:
        if isinstance(x, tuple):
            if x and isinstance(x[0], str):
                walk(x, f, seen)
            else:
                for y in x:
                    if isinstance(y, tuple):
                        walk(y, f, seen)


def subterms(t):
    out = []
    walk(t, lambda x: out.append(x) or True)
    return out


# ------------------------------------------------------------------ program
CURRENT = None    # the program being analysed (set by Program.__init__; read by base.match for on-demand expansion)


def _forward_target(f):
    """f (a function's fact entry) is a pure forwarder — its body hands its own parameters, in order and unchanged, to one
    crate function and returns that call's result: the callee's path, else None"""
    if f.get("kind") not in ("AssocFn", "Fn") or not f.get("blocks"):
        return None
    argc = f.get("argc", 0)
    blocks = [b for b in f["blocks"] if not b.get("cleanup")]
    calls = [b for b in blocks if b["term"]["k"] == "call"]
    # a fresh container made for the worker (`&mut HashMap::new()`: a per-call memo handed down) is not logic of its own
    fresh = {}
    for b in list(calls):
        t_ = b["term"]
        nm_ = ((t_.get("fn") or {}).get("def") or "").rsplit("::", 1)[-1]
        if not t_.get("args") and nm_ in ("new", "default") and not (t_.get("dest") or {}).get("proj") and len(calls) > 1:
            fresh[(t_.get("dest") or {}).get("l")] = True
            calls.remove(b)
    if len(calls) != 1 or any(b["term"]["k"] not in ("call", "return", "goto", "drop") for b in blocks):
        return None
    src = {}                                   # temp -> parameter it copies
    for b in blocks:
        for st in b["stmts"]:
            if st["k"] != "assign":
                continue
            lhs, rv = st["lhs"], st["rv"]
            if lhs["proj"]:
                return None
            if rv["k"] == "use" and rv["op"].get("k") in ("copy", "move") and not rv["op"]["place"]["proj"]:
                l = rv["op"]["place"]["l"]
                src[lhs["l"]] = src.get(l, l)
            elif rv["k"] == "ref" and [p_.get("p") for p_ in rv["place"]["proj"]] == ["deref"]:
                l = rv["place"]["l"]                # `&*self`: a reborrow of a reference parameter
                src[lhs["l"]] = src.get(l, l)
            elif rv["k"] == "ref" and not rv["place"]["proj"] and (rv["place"]["l"] in fresh or src.get(rv["place"]["l"]) == "fresh"):
                src[lhs["l"]] = "fresh"             # `&mut <fresh container>`
            else:
                return None
    t = calls[0]["term"]
    fnr = t.get("fn") or {}
    if not (fnr.get("local") or fnr.get("res_local")) or fnr.get("res_kind") not in ("Item", None) and not fnr.get("local"):
        return None
    args = t.get("args") or []
    if len(args) < argc or (len(args) > argc and not fresh):
        return None
    for i, a in enumerate(args):
        if i >= argc:
            # extra arguments of the worker: a fresh container or a constant
            if a.get("k") == "const":
                continue
            if a.get("k") in ("copy", "move") and not a["place"]["proj"] and (src.get(a["place"]["l"]) == "fresh" or a["place"]["l"] in fresh):
                continue
            return None
        if a.get("k") not in ("copy", "move") or a["place"]["proj"]:
            return None
        l = a["place"]["l"]
        if src.get(l, l) != i + 1:
            return None
    d = t.get("dest") or {}
    if d.get("l") != 0 or d.get("proj"):
        return None
    return fnr.get("res") or fnr.get("def")


def elide_forwarders(facts):
    """Normalisation of the program model: `fn f(args) { self.g(args) }` with a private worker g that nothing else calls
    is one function split in two for naming reasons (a recursive worker behind an entry point).  The worker takes the
    entry point's name and the wrapper disappears, so that every rule sees the code under the name it anchors on —
    recursion included.  Applied only when the split is unambiguous: g is called only from f and from itself (and its
    closures), has the same number of parameters, lives under the same parent, and its name is unique in the crate."""
    import json as _json
    import re as _re
    out = {}
    for unit, j in facts.items():
        fns = j.get("fns", [])
        by_path = {}
        for f in fns:
            by_path.setdefault(f["path"], []).append(f)
        last = lambda p_: p_.rsplit("::", 1)[-1]
        renames = []
        for f in fns:
            tgt = _forward_target(f)
            if not tgt or tgt == f["path"] or len(by_path.get(tgt, [])) != 1:
                continue
            g = by_path[tgt][0]
            if g.get("argc", 0) < f.get("argc", 0) or g["path"].rsplit("::", 1)[0] != f["path"].rsplit("::", 1)[0]:
                continue
            gname, fname = last(g["path"]), last(f["path"])
            if not _re.fullmatch(r"[A-Za-z_][A-Za-z0-9_]*", gname) or sum(1 for h in fns if last(h["path"]) == gname) != 1:
                continue
            if _forward_target(g):
                continue
            # callers of g, in every analysed unit: only f, g and g's closures
            ok = True
            needle = '::' + gname + '"'
            for u2, j2_ in facts.items():
                for h in j2_.get("fns", []):
                    if h is f or h is g or h["path"].startswith(g["path"] + "::{closure"):
                        continue
                    if needle in _json.dumps(h["blocks"]):
                        ok = False
                        break
                if not ok:
                    break
            if ok:
                renames.append((f, g, gname, fname))
        if not renames:
            out[unit] = j
            continue
        drop = {id(f) for f, _, _, _ in renames}
        for f, g, gname, fname in renames:
            g["vis_pub"], g["reachable"] = f.get("vis_pub"), f.get("reachable")
            g["forwarded_from"] = gname
        j2 = dict(j)
        j2["fns"] = [h for h in fns if id(h) not in drop]
        txt = _json.dumps(j2)
        for f, g, gname, fname in renames:
            txt = _re.sub(r"::" + gname + r"(?![A-Za-z0-9_])", "::" + fname, txt)
        out[unit] = _json.loads(txt)
    return out


# Private helpers the rules anchor on, each described by its *role* next to a stable (public API) entry point, so that a
# helper that was merely renamed is found again.  ("rec", module, entry, name): the one self-recursive crate function
# that `entry` calls.  ("callers", module, {callers}, name): the one private function called from exactly these functions.
ROLES = [
    ("rec", "builder::bdd::robdd", "smooth", "smooth_helper"),
    ("rec", "builder::bdd", "ite", "ite_helper"),
    ("rec", "builder::bdd::robdd", "cond_helper", "cond_with_alloc"),
    ("rec", "builder::decision_nnf::builder", "compile_cnf_topdown", "topdown_h"),
    ("rec", "builder::decision_nnf::builder", "condition", "cond_helper"),
    ("rec", "repr::bdd", "bb", "bb_h"),
    ("rec", "repr::bdd", "marginal_map", "marginal_map_h"),
    ("rec", "repr::bdd", "meu", "meu_h"),
    ("rec", "repr::bdd", "bdd_fold", "bdd_fold_h"),
    ("rec", "serialize::ser_bdd", "from_bdd", "serialize_helper"),
    ("rec", "serialize::ser_sdd", "from_sdd", "serialize_helper"),
    ("callers", "repr::bdd", ("bb", "bb_h"), "bb_ub"),
    ("callers", "repr::bdd", ("meu", "meu_h"), "eu_ub"),
    ("callers", "repr::bdd", ("marginal_map", "marginal_map_h"), "marginal_map_eval"),
    ("callers", "repr::unit_prop", ("decide", "new"), "update_hash_and_sat_set"),
    ("callers", "builder::bdd::robdd", ("condition_model",), "cond_model_h"),
    ("callers", "builder::bdd::robdd", ("ite_helper",), "condition_essential"),
    ("callers", "builder::decision_nnf::builder", ("topdown_h",), "conjoin_implied"),
]


def resolve_renamed(facts):
    """Normalisation of the program model: a private helper that a rule anchors on and that is no longer there under its
    name is looked up by its role (ROLES); when exactly one function fills the role it is given the expected name —
    everywhere in the fact file, so call sites and recursion follow.  A helper that was renamed is the same helper."""
    import json as _json
    import re as _re
    out = dict(facts)
    last = lambda p_: p_.rsplit("::", 1)[-1]
    for unit, j in facts.items():
        if not unit.endswith("-lib.json"):
            continue
        for _round in range(3):                 # a rename can make another role resolvable (bb_h before bb_ub)
            fns = [f for f in j.get("fns", []) if "{closure" not in f["path"]]
            names = {}
            for f in fns:
                names.setdefault(last(f["path"]), []).append(f)
            # local call graph by last segment
            calls, calls_full = {}, {}
            for f in j.get("fns", []):
                owner = f["path"].split("::{closure")[0]
                for b in f.get("blocks", []):
                    t = b["term"]
                    if t["k"] == "call":
                        fr = t.get("fn") or {}
                        if fr.get("local") or fr.get("res_local"):
                            for pth in (fr.get("res"), fr.get("def")):
                                if pth:
                                    calls.setdefault(owner, set()).add(last(pth.split("::{closure")[0]))
                                    calls_full.setdefault(owner, set()).add(norm(pth.split("::{closure")[0]))
            by_owner_last = {}
            for o, cs_ in calls.items():
                by_owner_last.setdefault(last(o), set()).update(cs_)
            renames = []
            for role in ROLES:
                kind, module, key, want = role
                if any(module in f["path"] for f in names.get(want, [])):
                    continue
                cands = []
                if kind == "rec":
                    entries = [f for f in names.get(key, []) if module in f["path"]]
                    callee_names = set()
                    for e in entries:
                        callee_names |= calls.get(e["path"], set())
                    for n_ in callee_names:
                        for g in names.get(n_, []):
                            # self-recursive, or mutually recursive with the entry point (`ite` <-> its expansion step)
                            if module in g["path"] and n_ != key and (norm(g["path"]) in calls_full.get(g["path"], set())
                                                                       or key in calls.get(g["path"], set())):
                                cands.append(n_)
                else:
                    for n_, gs in names.items():
                        gs_m = [g for g in gs if module in g["path"]]
                        if not gs_m or gs_m[0].get("vis_pub") and kind == "callers" and False:
                            continue
                        cl = {o for o, cs_ in by_owner_last.items() if n_ in cs_ and o != n_}
                        if cl and cl == set(key) and not any(g.get("reachable") for g in gs_m):
                            cands.append(n_)
                cands = sorted(set(cands))
                if len(cands) == 1 and len(names.get(cands[0], [])) <= 2 and _re.fullmatch(r"[A-Za-z_][A-Za-z0-9_]*", cands[0]) \
                        and cands[0] not in [r_[3] for r_ in ROLES]:
                    renames.append((cands[0], want))
            if not renames:
                break
            txt = _json.dumps(j)
            for gname, want in renames:
                txt = _re.sub(r"::" + gname + r"(?![A-Za-z0-9_])", "::" + want, txt)
            j = _json.loads(txt)
            for f in j["fns"]:
                for gname, want in renames:
                    if last(f["path"].split("::{closure")[0]) == want:
                        f["renamed_from"] = gname
        out[unit] = j
    return out


# Struct fields the rules anchor on, each with the role that identifies it when its name has changed:
#   ("indexed_in", fn)          the one field of the struct that method `fn` reads
#   ("type", type-fragment)      the one field of that type
#   ("type+word", type-fragment, word)   the one field of that type whose name contains `word`
FIELD_ROLES = [
    ("repr::var_order::VarOrder", "var_to_pos", ("indexed_in", "get")),
    ("repr::var_order::VarOrder", "pos_to_var", ("indexed_in", "var_at_level")),
    ("repr::unit_prop::UnitPropagate", "watch_list_pos", ("type+word", "Vec<std::vec::Vec<usize>>", "pos")),
    ("repr::unit_prop::UnitPropagate", "watch_list_neg", ("type+word", "Vec<std::vec::Vec<usize>>", "neg")),
    ("repr::unit_prop::SATSolver", "contains_pos_lit", ("type+word", "BitSet", "pos")),
    ("repr::unit_prop::SATSolver", "contains_neg_lit", ("type+word", "BitSet", "neg")),
    ("repr::unit_prop::SATSolver", "state_stack", ("type", "SatState>")),
    ("repr::cnf::CnfHasher", "pos_lits", ("type+word", "Vec<std::vec::Vec<usize>>", "pos")),
    ("repr::cnf::CnfHasher", "neg_lits", ("type+word", "Vec<std::vec::Vec<usize>>", "neg")),
    ("repr::bdd::BddNode", "semantic_hash", ("type", "RefCell<std::option::Option<u128>>")),
    ("repr::sdd::binary_sdd::BinarySDD", "semantic_hash", ("type", "RefCell<std::option::Option<u128>>")),
    ("repr::sdd::sdd_or::SddOr", "semantic_hash", ("type", "RefCell<std::option::Option<u128>>")),
    ("repr::bdd::BddNode", "data", ("type", "dyn std::any::Any")),
    ("repr::sdd::binary_sdd::BinarySDD", "scratch", ("type", "dyn std::any::Any")),
    ("repr::sdd::sdd_or::SddOr", "scratch", ("type", "dyn std::any::Any")),
    ("repr::wmc::WmcParams", "var_to_val", ("type", "Vec<std::option::Option<(T, T)>>")),
]


def resolve_renamed_fields(facts):
    """Like resolve_renamed, for struct fields: a field a rule names that is no longer there is looked up by its role
    (FIELD_ROLES) and, when exactly one field fills it, given the expected name in the struct's declaration, in every
    projection through that struct and in every struct literal."""
    import copy as _copy
    out = dict(facts)
    lib = [u for u in facts if u.endswith("-lib.json")]
    if not lib:
        return out
    j0 = facts[lib[0]]
    adts = {norm(a["path"]): a for a in j0.get("adts", [])}
    renames = {}                 # (adt, old) -> new
    for adt, want, how in FIELD_ROLES:
        a = adts.get(adt)
        if not a or not a.get("variants"):
            continue
        flds = a["variants"][0]["fields"]
        if any(f["name"] == want for f in flds):
            continue
        cands = []
        if how[0] == "type":
            cands = [f["name"] for f in flds if how[1] in (f.get("ty") or "")]
        elif how[0] == "type+word":
            cands = [f["name"] for f in flds if how[1] in (f.get("ty") or "") and how[2] in f["name"].lower()]
        elif how[0] == "indexed_in":
            for f in j0.get("fns", []):
                if f["path"].rsplit("::", 1)[-1] == how[1] and norm(f["path"]).startswith(adt + "::") and "{closure" not in f["path"]:
                    used = set()

                    def scan(x):
                        if isinstance(x, dict):
                            if x.get("p") == "field" and norm(x.get("owner") or "") == adt:
                                used.add(x.get("name"))
                            for v in x.values():
                                scan(v)
                        elif isinstance(x, list):
                            for v in x:
                                scan(v)
                    scan(f.get("blocks"))
                    cands = sorted(used)
        taken = {n for (a_, _), n in renames.items() if a_ == adt} | {o for (a_, o) in renames if a_ == adt}
        cands = [c for c in cands if c not in taken and c not in [w for a_, w, _ in FIELD_ROLES if a_ == adt]]
        if len(cands) == 1:
            renames[(adt, cands[0])] = want
    if not renames:
        return out

    def walk(x):
        if isinstance(x, dict):
            if x.get("p") == "field" and (norm(x.get("owner") or ""), x.get("name")) in renames:
                x["name"] = renames[(norm(x["owner"]), x["name"])]
            if x.get("agg") == "adt" and isinstance(x.get("fields"), list) and x.get("adt"):
                a_ = norm(x["adt"])
                x["fields"] = [renames.get((a_, n), n) for n in x["fields"]]
            for v in x.values():
                walk(v)
        elif isinstance(x, list):
            for v in x:
                walk(v)
    for u in facts:
        j = _copy.deepcopy(facts[u])
        for a in j.get("adts", []):
            an = norm(a["path"])
            for v in a.get("variants", []):
                for f in v.get("fields", []):
                    if (an, f["name"]) in renames:
                        f["renamed_from"] = f["name"]
                        f["name"] = renames[(an, f["name"])]
        walk(j.get("fns"))
        out[u] = j
    return out


class Program:
    def __init__(self, facts, meta=None):
        global CURRENT
        CURRENT = self
        self.meta = meta or {}
        facts = elide_forwarders(facts)
        facts = resolve_renamed(facts)
        facts = resolve_renamed_fields(facts)
        self.units = facts
        self.fns = []
        self.by_npath = defaultdict(list)
        self.adts = {}
        self.consts = {}
        self.modules = {}
        for unit, j in facts.items():
            for f in j["fns"]:
                fn = Fn(f, unit)
                self.fns.append(fn)
                self.by_npath[fn.npath].append(fn)
            if unit.endswith("-lib.json"):
                for a in j["adts"]:
                    self.adts[norm(a["path"])] = a
                for c in j["consts"]:
                    self.consts[norm(c["path"])] = c
                for m in j["modules"]:
                    self.modules[norm(m["path"])] = m
        self.lib_fns = [f for f in self.fns if f.unit.endswith("-lib.json")]
        self.bin_fns = [f for f in self.fns if f.unit.endswith("-bin.json")]
        self._children = defaultdict(list)
        for f in self.fns:
            if f.parent:
                self._children[(f.unit, f.parent)].append(f)

    def children(self, fn):
        return self._children.get((fn.unit, fn.npath), [])

    def find(self, name=None, self_adt=None, impl_trait=None, in_trait=None, path_contains=None,
             unit=None, kind=None, path_suffix=None):
        out = []
        for f in self.fns:
            if unit and not f.unit.startswith(unit):
                continue
            if name is not None and f.name != name:
                continue
            if self_adt is not None and f.impl_self != self_adt:
                continue
            if impl_trait is not None and f.impl_trait != impl_trait:
                continue
            if in_trait is not None and f.in_trait != in_trait:
                continue
            if path_contains is not None and path_contains not in f.npath:
                continue
            if path_suffix is not None and not f.npath.endswith(path_suffix):
                continue
            if kind is not None and f.kind != kind:
                continue
            out.append(f)
        return out

    def default_args_worker(self, f, depth=2):
        """`fn new(c) { Self::new_with_x(c, &[]) }`: an entry point that forwards its parameters in order, followed by
        constants, to a sibling whose name extends its own, is that sibling's default path — the logic a rule anchors on
        lives in the sibling.  Returns the sibling (followed at most twice), else f."""
        while depth > 0:
            depth -= 1
            calls = [b for b in f.blocks if b["term"]["k"] == "call" and not b.get("cleanup")]
            if not (1 <= len(calls) <= 4) or f.terms.ret is None or f.cfg.loop_headers:
                return f
            r = f.terms.ret
            while isinstance(r, tuple) and r and r[0] in ("ref", "deref"):
                r = r[1]
            # the panicking face of a checked variant: `fn x(a) { Self::try_x(a).unwrap_or_else(|e| panic!(..)) }`
            checked = False
            if isinstance(r, tuple) and r and r[0] == "call" and r[1].name in ("unwrap", "expect", "unwrap_or_else") and r[2] and \
                    isinstance(r[2][0], tuple) and r[2][0] and r[2][0][0] == "call" and (r[2][0][1].local or r[2][0][1].res_local) and \
                    r[2][0][1].name in ("try_" + f.name, f.name + "_checked", "checked_" + f.name):
                ok_div = True
                if r[1].name == "unwrap_or_else" and len(r[2]) == 2:
                    clo = r[2][1]
                    gs_ = [g for g in self.fns if isinstance(clo, tuple) and clo and clo[0] == "agg" and clo[1] == "closure" and g.npath == clo[2]]
                    ok_div = bool(gs_) and not gs_[0].cfg.returns
                if ok_div:
                    r, checked = r[2][0], True
            if not (isinstance(r, tuple) and r and r[0] == "call" and (r[1].local or r[1].res_local)):
                return f
            args = r[2]
            if checked and len(args) == f.argc and all(strip_refs(a) == ("param", i + 1) for i, a in enumerate(args)):
                gs = [g for g in self.resolve(r[1]) if "{closure" not in g.npath]
                if len(gs) == 1 and gs[0].impl_self == f.impl_self and gs[0] is not f:
                    f = gs[0]
                    continue
                return f
            if len(args) <= f.argc or any(strip_refs(a) != ("param", i + 1) for i, a in enumerate(args[:f.argc])):
                return f
            def constlike(a):
                a = strip_refs(a)
                while isinstance(a, tuple) and a and a[0] == "cast":
                    a = strip_refs(a[2])
                return isinstance(a, tuple) and a and (a[0] in ("const", "constitem") or (a[0] == "agg" and not a[4]))
            def of_params(a):
                """computed from the entry's own parameters and constants only (`&sexpr.variable_mapping()`)"""
                for x in [a] + subterms(a):
                    if isinstance(x, tuple) and x and x[0] in ("mu", "phi", "gamma", "local", "mutref", "mut", "top"):
                        return False
                return True
            def fresh(a):
                """`&mut HashMap::new()`: a fresh container handed to the worker (a per-call memo)"""
                a = strip_refs(a)
                if isinstance(a, tuple) and a and a[0] == "mutref":
                    for cs in f.terms.calls:
                        if cs.term is r or cs.term == r:
                            v = f.terms.state_in.get(cs.bb, {}).get(a[1])
                            v = strip_refs(v) if v is not None else None
                            return isinstance(v, tuple) and v and v[0] == "call" and v[1].name in ("new", "default", "with_capacity") \
                                and all(constlike(x) for x in v[2])
                return False
            if not all(constlike(a) or of_params(a) or fresh(a) for a in args[f.argc:]):
                return f
            gs = [g for g in self.resolve(r[1]) if "{closure" not in g.npath]
            if len(gs) != 1 or gs[0].impl_self != f.impl_self or not gs[0].name.startswith(f.name) or gs[0] is f:
                return f
            f = gs[0]
        return f

    def find1(self, **kw):
        follow = kw.pop("follow_defaults", True)
        r = self.find(**kw)
        if len(r) == 1 and follow and kw.get("name"):
            return self.default_args_worker(r[0])
        if len(r) != 1:
            from .facts import CheckerError
            raise CheckerError("anchor lookup %r matched %d functions: %s"
                               % (kw, len(r), [f.npath for f in r][:6]))
        return r[0]

    def resolve(self, callee, unit=None):
        """Fn objects a call may dispatch to inside the analysed crates (resolved instance,
        or all local impls of a trait method when the receiver is generic)."""
        out = []
        if callee.res:
            for f in self.by_npath.get(callee.res, []):
                if unit is None or f.unit == unit or f.unit.endswith("-lib.json"):
                    out.append(f)
            if out:
                return out
        for f in self.by_npath.get(callee.def_, []):
            out.append(f)
        if callee.trait:
            for f in self.fns:
                if f.impl_trait == callee.trait and f.name == callee.name:
                    out.append(f)
        # dedupe
        seen = set()
        res = []
        for f in out:
            if id(f) not in seen:
                seen.add(id(f))
                res.append(f)
        return res
