"""UG — an assignment made during unit propagation is made to an unassigned variable.

`UnitPropagate` threads a `PartialModel` through `decide`; the model's `set` overwrites.  Soundness ("every assigned
value is entailed", "UNSAT is reported when no model extends the decisions") rests on never overwriting: a literal is
only assigned after the model was asked and answered `None` for its variable.  The rule is a guarded-use rule with an
interprocedural obligation:

  * every `PartialModel::set(m, label(l), _)` in `repr::unit_prop` is dominated by the outcome `None` of
    `m.get(label(l))` (or `!is_set`) for the same literal, or
  * `l` is a parameter of the function, and then *every call site* hands it a literal that is guarded there in the same
    way, or that is drawn from an iterator filtered on `get(label(x)).is_none()` (the unassigned literals of a clause).

A helper that assigns without asking is fine as long as all its callers ask; the one caller that does not (the list of
top-level unit clauses, say) is reported.
"""
from . import mir
from .base import inst, OK, VIOLATION, UNDECIDED, strip
from .mir import show

PM = "PartialModel"


def _peel(t):
    t = strip(t)
    while isinstance(t, tuple) and t and (t[0] in ("deref", "copy", "ref") or (mir.is_call(t) and t[1].name in ("clone", "copied", "deref") and t[2])):
        t = strip(t[1] if t[0] in ("deref", "copy", "ref") else t[2][0])
    return t


def guarded(fn, bb, lit):
    """is there a fact at bb saying that the model has no value for label(lit)?"""
    te = fn.terms
    for c, val, _, _ in te.facts_at(bb):
        c0 = strip(c)
        neg = False
        while c0[0] == "un" and c0[1] == "Not":
            neg = not neg
            c0 = strip(c0[2])
        target = None
        want_true = None
        if c0[0] == "discr" and mir.is_call(strip(c0[1]), "get") and PM in strip(c0[1])[1].key():
            g = strip(c0[1])
            vm = te._discr_variants.get(c) or te._discr_variants.get(c0) or {"0": "None", "1": "Some"}
            names = [vm.get(val)] if isinstance(val, str) else []
            if isinstance(val, tuple) and val[0] == "not":
                names = [n for k, n in vm.items() if k not in val[1]]
            if names == ["None"]:
                target = g
        elif mir.is_call(c0, "is_none") and mir.is_call(strip(c0[2][0]), "get") and PM in strip(c0[2][0])[1].key():
            if (val != "0") != neg:
                target = strip(c0[2][0])
        elif mir.is_call(c0, "is_some") and mir.is_call(strip(c0[2][0]), "get") and PM in strip(c0[2][0])[1].key():
            if (val == "0") != neg:
                target = strip(c0[2][0])
        elif mir.is_call(c0, "is_set") and PM in c0[1].key():
            if (val == "0") != neg:
                target = c0
        if target is None:
            continue
        lab = strip(target[2][1])
        if mir.is_call(lab, "label") and _peel(lab[2][0]) == _peel(lit):
            return True
    return False


def from_unassigned_filter(prog, fn, bb, lit):
    """lit is an item of an iterator `filter(.., |x| m.get(x.label()).is_none())`"""
    te = fn.terms
    for x in mir.subterms(lit):
        x = strip(x)
        if not (mir.is_call(x, "next") and x[2]):
            continue
        it = strip(x[2][0])
        cands = []
        if it[0] == "mutref":
            for st in (te.state_in.get(bb, {}), te.state_out.get(bb, {})):
                if it[1] in st and st[it[1]] is not None:
                    cands.append(st[it[1]])
            for (h, l), init in te.mu_init.items():
                if l == it[1]:
                    cands.append(init)
        else:
            cands.append(it)
        for c in cands:
            for y in mir.subterms(c):
                y = strip(y)
                if mir.is_call(y, "filter") and len(y[2]) == 2:
                    clo = strip(y[2][1])
                    if clo[0] == "agg" and clo[1] == "closure":
                        ks = [k for k in prog.fns if k.npath == clo[2]]
                        if ks:
                            names = [cs.callee.name for cs in ks[0].terms.calls]
                            if "get" in names and ("is_none" in names) or ("is_set" in names and "Not" in show(ks[0].terms.ret)):
                                return True
    return False


def run(prog):
    out = []
    fns = [f for f in prog.lib_fns if "repr::unit_prop::" in f.npath and "::test" not in f.npath and f.kind != "Closure"
           and any(b["term"]["k"] == "call" for b in f.blocks)]
    n = 0
    for f in fns:
        te = f.terms
        for cs in te.calls:
            if not (cs.callee.name == "set" and PM in cs.callee.key() and len(cs.args) == 3):
                continue
            lab = strip(cs.args[1])
            if not mir.is_call(lab, "label"):
                continue
            n += 1
            lit = _peel(lab[2][0])
            key = "%s:assigns-unassigned" % f.npath
            if guarded(f, cs.bb, lit):
                out.append(inst("UG", key, OK, f, cs.line, "set(label(l), _) under get(label(l)) == None"))
                continue
            if lit[0] != "param" and from_unassigned_filter(prog, f, cs.bb, lab[2][0]):
                out.append(inst("UG", key + "#drawn", OK, f, cs.line, "the literal is drawn from the unassigned literals of a clause"))
                continue
            if lit[0] != "param":
                out.append(inst("UG", key, VIOLATION, f, cs.line,
                                "%s assigns %s without having asked the model about that variable: a value derived earlier can be "
                                "overwritten, so a contradiction is turned into an assignment instead of UNSAT" % (f.name, show(lit)[:40])))
                continue
            # obligation on the callers
            pi = lit[1]
            errs, sites = [], 0
            for g in fns + [k for k in prog.lib_fns if "repr::unit_prop::" in k.npath and k.kind == "Closure"]:
                for c2 in g.terms.calls:
                    if c2.callee.name != f.name or f not in prog.resolve(c2.callee) or len(c2.args) < pi:
                        continue
                    sites += 1
                    a = _peel(c2.args[pi - 1])
                    if guarded(g, c2.bb, a) or from_unassigned_filter(prog, g, c2.bb, c2.args[pi - 1]):
                        continue
                    errs.append("`%s` assigns its literal without asking the model, and %s (line %d) calls it with %s, which is "
                                "neither tested with get(..) == None there nor drawn from the unassigned literals of a clause: a literal "
                                "whose variable already has the opposite value flips it instead of reporting UNSAT"
                                % (f.name, g.name, c2.line, show(a)[:40]))
            if f.reachable:
                # a public entry point cannot put the obligation on callers it does not know
                out.append(inst("UG", key, VIOLATION, f, cs.line,
                                "`%s` is public and assigns its literal without asking the model about that variable: decided on a "
                                "variable that already has the opposite value (from a unit clause or an earlier decision) it flips the "
                                "value instead of reporting UNSAT" % f.name))
            elif not sites:
                out.append(inst("UG", key, UNDECIDED, f, cs.line, "unguarded assignment to a parameter, and no caller found"))
            else:
                out.append(inst("UG", key, VIOLATION if errs else OK, f, cs.line,
                                errs[0] if errs else "unguarded here; all %d call sites pass an unassigned literal" % sites))
    if n == 0:
        out.append(inst("UG", "repr::unit_prop:assigns-unassigned", UNDECIDED, None, None, "no PartialModel::set(label(l), _) found in unit propagation"))
    out += unit_found_is_propagated(prog, fns)
    return out


def _count_like(t):
    """a count of the literals of a clause that pass a test (the clause's unassigned literals): `filter(..).count()`,
    or the length of such a selection"""
    for x in mir.subterms(t):
        if mir.is_call(x) and x[1].name in ("count", "len") and x[2] and \
                any(mir.is_call(y) and y[1].name in ("filter", "filter_map") for y in mir.subterms(x[2][0])):
            return True
    return False


def unit_found_is_propagated(prog, fns):
    """UF — a clause found to have exactly one unassigned literal is propagated before the scan moves on.

    Propagation "runs to fixpoint" only if every unit the watcher scan meets is followed up.  In the scanning function
    (the one that counts a clause's unassigned literals and compares the count with 1) every path from the "exactly one
    left" outcome back to the head of the scan, or out of the function, passes a call that propagates: the function's
    own recursion, or a push onto a work list.  A path that merely advances the cursor (a depth budget, a flag) leaves a
    unit clause behind, and nothing revisits it: the clause watches the literal that was just falsified."""
    out = []
    for f in fns:
        te = f.terms
        cfg = f.cfg
        edges = []     # (switch block, target block reached when count == 1)
        for b, (c, vm) in te.switch_term.items():
            c0 = strip(c)
            t = f.blocks[b]["term"]
            if c0[0] == "bin" and c0[1] in ("Eq",) and _count_like(c0):
                l, r = strip(c0[2]), strip(c0[3])
                k = r if r[0] == "const" else l if l[0] == "const" else None
                if k is not None and k[2] == "1":
                    # switchInt on a bool: target '0' = false, otherwise = true
                    tgt = [s_ for v, s_ in t["targets"] if v != "0"] or [t["otherwise"]]
                    if t["otherwise"] is not None and all(v == "0" for v, _ in t["targets"]):
                        tgt = [t["otherwise"]]
                    edges += [(b, x) for x in tgt]
            elif _count_like(c0) and c0[0] != "bin" and not vm:
                for v, s_ in t["targets"]:
                    if v == "1":
                        edges.append((b, s_))
        if not edges:
            continue
        key = "%s:unit-found-is-propagated" % f.npath
        prop_blocks = set()
        for cs in te.calls:
            rec = cs.callee.name == f.name and f in prog.resolve(cs.callee)
            # a work list: a push onto a collection that is not one of the label-indexed watch tables
            queue = cs.callee.name in ("push", "push_back", "push_front") and cs.args and \
                ("Vec" in cs.callee.key() or "VecDeque" in cs.callee.key()) and \
                not any(mir.is_call(y) and y[1].name in ("index", "index_mut") for y in mir.subterms(cs.args[0])) and \
                "watch" not in show(cs.args[0])
            helper = False
            if not rec and not queue and cs.callee.local:
                for g in prog.resolve(cs.callee):
                    if any(c2.callee.name == f.name and f in prog.resolve(c2.callee) for c2 in g.terms.calls):
                        helper = True
            if rec or queue or helper:
                prop_blocks.add(cs.bb)
        errs = []
        for b, tgt in edges:
            if tgt in prop_blocks:
                continue
            heads = [h for h, body in cfg.loop_headers.items() if b in body]
            dsts = heads + list(cfg.returns)
            for d in dsts:
                if d in prop_blocks:
                    continue
                if cfg.can_reach(tgt, d, avoid=prop_blocks):
                    what = "the scan continues with the next watcher" if d in heads else "the function returns"
                    errs.append("after a clause was found to have exactly one unassigned literal there is a path on which %s without "
                                "that literal being propagated (no recursive %s, nothing queued): the unit clause is left behind, "
                                "and it no longer watches a literal whose assignment would wake it" % (what, f.name))
                    break
        out.append(inst("UG", key, VIOLATION if errs else OK, f, None,
                        errs[0] if errs else "every path from `exactly one unassigned literal` propagates it before the scan goes on"))
    return out
