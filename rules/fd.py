"""FD — the vtree derived from a dtree keeps every sub-vtree and every cutset (conservation on every return path).

`VTree::from_dtree` turns a dtree into a vtree: the variables of a dtree node's cutset become a right-linear spine
whose continuation is the vtree of the children.  DTR3 says every variable of the CNF is in exactly one cutset; so
"the vtree contains every CNF variable as exactly one leaf" (C14) holds iff, on every return path,

FD1  `from_dtree`, node case: the returned tree is built from the node's cutset, from the vtree of the left child when
     there is one, and from the vtree of the right child when there is one — each exactly once; `None` is returned only
     when the cutset is empty and neither child produced a vtree.  Leaf case: `None` only for an empty cutset, otherwise
     the tree is built from the leaf's cutset.
FD2  `right_linear_c(vars, continuation)`: every returned tree contains the continuation (its payload, or a recursive
     call that receives the continuation) unless the path is one on which the continuation is known to be `None`; the
     slice partition of `vars` is VT's business.

The verdict is read off the gated return term and the branch facts of each alternative; a shape the rule does not
understand (a child result of unknown status that is not mentioned, combinators) is undecided.
"""
from . import mir
from .base import inst, OK, VIOLATION, UNDECIDED, strip
from .facts import CheckerError
from .mir import show

TRUE_VALS = ("1", ("not", ("0",)))
FALSE_VALS = ("0", ("not", ("1",)))


def _conflict(v0, v1):
    if v0 == v1:
        return False
    in0 = isinstance(v0, tuple) and v0 and v0[0] == "in"
    in1 = isinstance(v1, tuple) and v1 and v1[0] == "in"
    if in0 or in1:
        if in0 and in1:
            return not (set(v0[1]) & set(v1[1]))
        s_, o = (v0[1], v1) if in0 else (v1[1], v0)
        if isinstance(o, tuple) and o and o[0] == "not":
            return not (set(s_) - set(o[1]))
        return o not in s_
    neg0 = isinstance(v0, tuple) and v0 and v0[0] == "not"
    neg1 = isinstance(v1, tuple) and v1 and v1[0] == "not"
    if not neg0 and not neg1:
        return True
    if neg0 and not neg1:
        return v1 in v0[1]
    if neg1 and not neg0:
        return v0 in v1[1]
    return False


def consistent(facts, c, lab):
    k = key_of(c)
    return not any(key_of(c0) == k and _conflict(v0, lab) for c0, v0 in facts)


def _nested_join(t):
    for x in mir.subterms(t):
        if x is not t and x[0] in ("gamma", "phi"):
            return x
    return None


def _opt_agg(x):
    x = mir.strip_refs(strip(x))
    if isinstance(x, tuple) and x and x[0] == "agg" and x[3] in ("Some", "None"):
        return x[3]
    return None


def static_cond(c):
    """the label a condition is known to take, when it only looks at a literal: is_none/is_some/discr of Some{..}/None,
    a constant"""
    c = strip(c)
    if not isinstance(c, tuple) or not c:
        return None
    if c[0] == "const" and c[2] in ("0", "1"):
        return c[2]
    if c[0] == "un" and c[1] == "Not":
        v = static_cond(c[2])
        return None if v is None else ("1" if v == "0" else "0")
    if mir.is_call(c) and c[1].name in ("is_none", "is_some") and c[2]:
        k = _opt_agg(c[2][0])
        if k is not None:
            return "1" if (k == "None") == (c[1].name == "is_none") else "0"
    if c[0] == "discr":
        k = _opt_agg(c[1])
        if k is not None:
            return "1" if k == "Some" else "0"
    return None


def _label_matches(lab, v):
    if lab == v:
        return True
    if isinstance(lab, tuple) and lab and lab[0] == "not":
        return v not in lab[1]
    if isinstance(lab, tuple) and lab and lab[0] == "in":
        return v in lab[1]
    return False


def alts(te, t, facts=(), depth=0):
    """(leaf, facts) for every alternative of a gated term; facts = ((cond term, value), ..).  Joins inside a leaf
    (`Some{γ(c | a, b)}`) and inside a condition are distributed outward; conditions that only look at a literal are
    decided; alternatives that contradict the facts collected so far are dropped; a block entered along several edges
    contributes one alternative per edge (`A | B => ..` or-patterns)."""
    from .canon import _replace
    if depth > 14:
        yield t, facts
        return
    if isinstance(t, tuple) and t and t[0] == "gamma":
        cj = t[1] if (isinstance(t[1], tuple) and t[1] and t[1][0] in ("gamma", "phi")) else _nested_join(t[1])
        if cj is not None:
            # a join inside the condition: fix its alternative first (throughout the term)
            arms = cj[2]
            for lab, v in arms:
                ways = [[]]
                if cj[0] == "phi" and isinstance(lab, int):
                    ways = te.entry_guards(lab)
                for fs in ways:
                    f2 = tuple((c, val) for c, val, _, _ in fs)
                    if cj[0] == "gamma":
                        if not consistent(facts, cj[1], lab):
                            continue
                        f2 = ((cj[1], lab),)
                    elif not all(consistent(facts, c, val) for c, val in f2):
                        continue
                    for x in alts(te, _replace(t, lambda y: y == cj, v), facts + f2, depth + 1):
                        yield x
            return
        known = static_cond(t[1])
        for lab, v in t[2]:
            if known is not None and not _label_matches(lab, known):
                continue
            if consistent(facts, t[1], lab):
                for x in alts(te, v, facts + ((t[1], lab),), depth + 1):
                    yield x
        return
    if isinstance(t, tuple) and t and t[0] == "phi":
        for p, v in t[2]:
            ways = te.entry_guards(p) if isinstance(p, int) else [[]]
            for fs in ways:
                f2 = tuple((c, val) for c, val, _, _ in fs)
                if all(consistent(facts, c, val) for c, val in f2):
                    for x in alts(te, v, facts + f2, depth + 1):
                        yield x
        return
    j = _nested_join(t)
    if j is None:
        yield t, facts
        return
    if j[0] == "gamma":
        for x in alts(te, ("gamma", j[1], tuple((lab, _replace(t, lambda y: y == j, v)) for lab, v in j[2])), facts, depth + 1):
            yield x
    else:
        for p, v in j[2]:
            ways = te.entry_guards(p) if isinstance(p, int) else [[]]
            for fs in ways:
                f2 = tuple((c, val) for c, val, _, _ in fs)
                if all(consistent(facts, c, val) for c, val in f2):
                    for x in alts(te, _replace(t, lambda y: y == j, v), facts + f2, depth + 1):
                        yield x


VIEWS = ("collect", "iter", "into_iter", "as_slice", "copied", "cloned", "to_vec", "deref", "as_ref", "borrow")


def _unview(t):
    """the same collection seen through element-preserving views (`x.iter().collect()`, `v.as_slice()`) is x"""
    if not isinstance(t, tuple) or not t:
        return t
    if t[0] == "call":
        args = tuple(_unview(a) for a in t[2])
        if t[1].name in VIEWS and len(args) == 1 and (not t[1].local or t[1].name in ("iter", "into_iter")):
            return args[0]
        return (t[0], t[1], args) + tuple(t[3:])
    return tuple(_unview(a) if isinstance(a, tuple) else a for a in t)


def key_of(t):
    return show(_unview(mir.strip_refs(strip(t))), -20)


def full_key(te, t, depth=0):
    """key_of(t), with every in-place mutation `mut[f](x)` spelled out with the other arguments of that call
    (`v.extend(w)` shows as mut[extend](v){w})"""
    s = key_of(t)
    if depth > 4:
        return s
    extra = []
    for x in mir.subterms(t):
        if x[0] == "mut" and isinstance(x[1], tuple) and x[1]:
            cs = te.calls_by_bb.get(x[1][0])
            if cs is not None:
                for a in cs.args:
                    if not (isinstance(a, tuple) and a and a[0] == "mutref"):
                        extra.append(full_key(te, a, depth + 1))
    return s + ("{" + ", ".join(extra) + "}" if extra else "")


def opt_status(facts, t):
    """'some' | 'none' | None for an Option-valued term under branch facts"""
    k = key_of(t)
    for c, v in facts:
        if isinstance(c, tuple) and c and c[0] == "discr" and key_of(c[1]) == k:
            if v == "1" or v == ("not", ("0",)):
                return "some"
            if v == "0" or v == ("not", ("1",)):
                return "none"
        if mir.is_call(c, "is_some") and key_of(c[2][0]) == k:
            return "some" if v in TRUE_VALS else "none"
        if mir.is_call(c, "is_none") and key_of(c[2][0]) == k:
            return "none" if v in TRUE_VALS else "some"
    return None


def is_none(t):
    t = strip(t)
    return isinstance(t, tuple) and t and t[0] == "agg" and t[3] == "None"


def is_some(t):
    t = strip(t)
    return isinstance(t, tuple) and t and t[0] == "agg" and t[3] == "Some"


def empty_known(facts, cut_key):
    """True / False / None: is the cutset known (non-)empty under the facts"""
    for c, v in facts:
        if mir.is_call(c, "is_empty") and cut_key in key_of(c[2][0]):
            if v in TRUE_VALS:
                return True
            if v in FALSE_VALS:
                return False
        if mir.is_call(c, "len") and cut_key in key_of(c[2][0]):
            pass
    return None


def find_fn(prog, name):
    fns = [g for g in prog.lib_fns if g.name == name and "repr::vtree" in g.npath and "{closure" not in g.npath]
    if len(fns) != 1:
        raise CheckerError("FD: %s not found in repr::vtree" % name)
    return fns[0]


def fd1(prog, out):
    fn = find_fn(prog, "from_dtree")
    te = fn.terms
    rec = [cs for cs in te.calls if cs.callee.name == "from_dtree"]
    child = {}
    for cs in rec:
        s = show(cs.args[0], -20)
        side = "l" if "Node).l" in s else "r" if "Node).r" in s else None
        if side:
            child.setdefault(side, ("call", cs.callee, tuple(cs.args)))
    key = "%s:FD1" % fn.npath
    if set(child) != {"l", "r"}:
        out.append(inst("FD", key, UNDECIDED, fn, None, "?the two recursive calls on the children of a node were not recognised"))
        return
    node_cut = "(arg1 as Node).cutset"
    leaf_cut = "(arg1 as Leaf).cutset"
    errs = []
    n_alt = 0
    from .canon import subst

    def through_helpers(leaf, facts, depth=2):
        """a leaf that is the call of a private helper assembling the result (`cutset_spine(cutset, below)`): the helper's own
        alternatives, each under the helper's own branch facts, with the arguments in place"""
        l0 = strip(leaf)
        if depth and mir.is_call(l0) and (l0[1].local or getattr(l0[1], "res_local", False)) and \
                l0[1].name not in ("from_dtree", "right_linear_c", "new_node", "new_leaf", "right_linear"):
            hs = [h for h in prog.resolve(l0[1]) if "{closure" not in h.npath]
            if len(hs) == 1 and hs[0].terms.ret is not None and hs[0] is not fn:
                ps = {i + 1: a for i, a in enumerate(l0[2])}
                for hl, hf in alts(hs[0].terms, hs[0].terms.ret):
                    hl2 = subst(hl, ps)
                    hf2 = tuple((subst(c, ps), v) for c, v in hf)
                    # conditions that became decidable by the substitution (is_none(Some{..})) prune the alternative
                    dead = False
                    for c, v in hf2:
                        k = static_cond(c)
                        if k is not None and not _label_matches(v, k):
                            dead = True
                    if dead or not all(consistent(facts, c, v) for c, v in hf2):
                        continue
                    for x in alts(te, hl2, facts + hf2):
                        for y in through_helpers(x[0], x[1], depth - 1):
                            yield y
                return
        yield leaf, facts

    def all_alts():
        for leaf, facts in alts(te, te.ret):
            for x in through_helpers(leaf, facts):
                yield x
    for leaf, facts in all_alts():
        n_alt += 1
        variant = None
        for c, v in facts:
            if isinstance(c, tuple) and c[0] == "discr" and key_of(c[1]) == "arg1":
                variant = v
        s = key_of(leaf)
        in_node = node_cut in s or any(key_of(child[k]) in s for k in child)
        in_leaf = leaf_cut in s
        if not (in_node or in_leaf):
            # decide by the variant fact: Node is variant 0 / Leaf 1 (read from the field projections of the facts)
            fs = " ".join(key_of(c) for c, _ in facts)
            in_node = "as Node)" in fs or any(key_of(child[k]) in fs for k in child)
            in_leaf = not in_node and "as Leaf)" in fs
        if is_none(leaf):
            if in_node or (not in_leaf and any(opt_status(facts, child[k]) for k in child)):
                st = {k: opt_status(facts, child[k]) for k in child}
                emp = empty_known(facts, node_cut)
                bad = [k for k in child if st[k] != "none"]
                if bad:
                    errs.append("returns None although the vtree of the %s child %s: its variables are in no leaf" % (
                        "left" if bad[0] == "l" else "right", "exists" if st[bad[0]] == "some" else "may exist"))
                elif emp is not True:
                    errs.append("returns None for a node whose cutset is %s: its variables are in no leaf" % (
                        "not empty" if emp is False else "not known to be empty"))
            else:
                emp = empty_known(facts, leaf_cut)
                if emp is not True:
                    errs.append("returns None for a leaf whose cutset is %s" % ("not empty" if emp is False else "not known to be empty"))
            continue
        if not is_some(leaf):
            errs.append("?a return alternative is neither Some{..} nor None: %s" % s[:60])
            continue
        if in_leaf and not in_node:
            if leaf_cut not in s:
                errs.append("the leaf case does not build its tree from the leaf's cutset")
            continue
        # node case
        if node_cut not in s:
            if empty_known(facts, node_cut) is not True:
                errs.append("a node's tree is built without its cutset (%s)" % s[:70])
        for k in ("l", "r"):
            st = opt_status(facts, child[k])
            ck = key_of(child[k])
            cnt = s.count(ck)
            nm = "left" if k == "l" else "right"
            if st == "none":
                continue
            if cnt == 0:
                errs.append("the vtree of the %s child %s is not part of the returned tree: its variables are in no leaf" % (
                    nm, "(which exists on this path)" if st == "some" else "(whose existence is not tested on this path)"))
            elif cnt > 1:
                errs.append("the vtree of the %s child occurs %d times in the returned tree: its variables are leaves more than once" % (nm, cnt))
    if n_alt < 3:
        errs.append("?fewer return alternatives than cases")
    out.append(inst("FD", key, VIOLATION if errs else OK, fn, None,
                    "; ".join(dict.fromkeys(errs)) if errs else
                    "%d return alternatives: cutset and each existing child vtree used exactly once; None only when nothing is left" % n_alt))


def fd2(prog, out):
    fn = find_fn(prog, "right_linear_c")
    te = fn.terms
    key = "%s:FD2" % fn.npath
    # the continuation parameter: the Option-typed one
    cont = None
    for i in range(1, 4):
        for c, v, _, _ in [f for b in range(len(fn.blocks)) for f in te.facts_at(b)]:
            if isinstance(c, tuple) and c[0] == "discr" and strip(mir.strip_refs(c[1])) == ("param", i):
                cont = ("param", i)
        if cont:
            break
    if cont is None:
        out.append(inst("FD", key, UNDECIDED, fn, None, "?no Option-typed continuation parameter tested"))
        return
    ck = key_of(cont)
    errs = []
    n = 0
    for leaf, facts in alts(te, te.ret):
        n += 1
        st = opt_status(facts, cont)
        if st == "none":
            continue
        s = key_of(leaf)
        payload = "(%s as Some).0" % ck
        passed = any(mir.is_call(x, "right_linear_c") and any(key_of(a) == ck for a in x[2]) for x in mir.subterms(leaf))
        cnt = s.count(payload) + (1 if passed else 0)
        if cnt == 0:
            errs.append("a returned tree does not contain the continuation%s (%s): the variables below the spine are in no leaf" % (
                " although it exists on this path" if st == "some" else "", s[:60]))
        elif cnt > 1:
            errs.append("a returned tree contains the continuation %d times" % cnt)
    if n < 2:
        errs.append("?return alternatives not recognised")
    out.append(inst("FD", key, VIOLATION if errs else OK, fn, None,
                    "; ".join(dict.fromkeys(errs)) if errs else "%d return alternatives: the continuation is part of every tree built on a path where it may exist" % n))


def run(prog):
    out = []
    fd1(prog, out)
    fd2(prog, out)
    return out
