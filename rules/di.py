"""DI — a lazily derived field is dropped by every mutator of what it is derived from.

A struct field of type `OnceCell<_>` / `OnceLock<_>` / `LazyCell<_>` / `Cell<Option<_>>` / `RefCell<Option<_>>` is a value
computed on first use from the *other* fields of the struct (that is what these types are for).  It stays valid only as long
as those fields do not change.  Rule: in every method that takes `&mut self` and writes another field of the struct (a store
through the field, or a mutating call — push / insert / resize / clear / index_mut … — on it), every path from such a write
to a return passes a reset of each lazily derived field (`take()`, `set(..)`, an assignment of a fresh cell, `*self = ..`).
A reset on some paths only (say, only when the table grows) leaves the derived value stale on the others, and readers that
go through it disagree with readers that go through the source fields.

The same holds for a field that is derived *eagerly*: a struct literal that initialises field F with a function (`len()`,
`count()`, `max()`, a hash, any call) of the very value it stores in field G remembers a fact about G; every `&mut self`
method that changes G must store F again on every path (`eager_fields`).

The rule ranges over every struct of the crate.  Today no struct has such a field, so the expected instance count is zero
(the self-test carries the positive example); it was written because a change of the seventh seeding round added one.
"""
from . import mir
from .base import inst, OK, VIOLATION, UNDECIDED, strip
from .mir import show

LAZY = ("OnceCell<", "OnceLock<", "LazyCell<", "LazyLock<", "Cell<std::option::Option<", "RefCell<std::option::Option<")
MUTATING = ("push", "insert", "remove", "resize", "clear", "truncate", "index_mut", "extend", "pop", "swap_remove", "retain",
            "get_mut", "iter_mut", "sort", "sort_by", "dedup", "append", "drain", "entry", "last_mut", "first_mut")
RESET = ("take", "set", "replace", "get_mut", "swap")


def lazy_fields(prog):
    out = {}
    for path, a in prog.adts.items():
        if a.get("kind") != "Struct" or not a.get("variants"):
            continue
        fs = a["variants"][0]["fields"]
        lz = [f["name"] for f in fs if any(h in (f.get("ty") or "") for h in LAZY)]
        if lz and len(fs) > len(lz):
            out[path] = (lz, [f["name"] for f in fs if f["name"] not in lz])
    return out


PLACE_CALLS = ("deref_mut", "deref", "borrow_mut", "borrow", "as_mut", "as_ref", "as_ptr", "index_mut", "index", "get_mut",
               "unwrap", "expect", "as_mut_slice", "as_slice", "last_mut", "first_mut", "iter_mut", "get_unchecked_mut")


def _field_of_self(t, names):
    """t is a place inside self.<field> for a field in names (the field itself, an element of it, what a borrow of its cell
    gives): returns the field name.  A value merely *computed from* the field (a sorted copy, a collected vector) is not
    a place in it."""
    x = strip(t)
    for _ in range(12):
        if not isinstance(x, tuple) or not x:
            return None
        if x[0] == "field":
            if x[2] in names and strip(x[1]) in (("param", 1), ("deref", ("param", 1))):
                return x[2]
            x = strip(x[1])
        elif x[0] in ("ref", "deref", "mutref_of") and len(x) > 1 and isinstance(x[1], tuple):
            x = strip(x[1])
        elif x[0] == "index" and isinstance(x[1], tuple):
            x = strip(x[1])
        elif x[0] == "as" and isinstance(x[1], tuple):
            x = strip(x[1])
        elif x[0] == "call" and x[1].name in PLACE_CALLS and x[2]:
            x = strip(x[2][0])
        elif x[0] == "mut" and len(x) > 3 and isinstance(x[3], tuple):
            x = strip(x[3])
        else:
            return None
    return None


def eager_fields(prog):
    """{adt: {F: [G, ..]}} — F is initialised, in some struct literal of the crate, with a call applied to (a term containing)
    the value the same literal stores in G"""
    from .fd import key_of
    out = {}
    for fn in prog.lib_fns:
        if "::test" in fn.npath or fn.name.startswith("test") or \
                not any(s_["k"] == "assign" and s_["rv"]["k"] == "agg" for b in fn.blocks for s_ in b["stmts"]):
            continue
        for bb, t, line in fn.terms.aggs:
            if t[1] != "adt" or len(t) < 6 or not t[5] or len(t[4]) < 2:
                continue
            a = prog.adts.get(t[2])
            if not a or a.get("kind") != "Struct":
                continue
            for j, fj in enumerate(t[4]):
                f0 = strip(fj)
                while isinstance(f0, tuple) and f0 and f0[0] == "call" and f0[1].name in ("new", "from", "into") and \
                        len(f0[2]) == 1 and not f0[1].local:
                    f0 = strip(f0[2][0])          # the value behind a cell / box constructor
                arith = isinstance(f0, tuple) and f0 and (f0[0] == "bin" or (f0[0] == "field" and f0[2] == "0" and
                                                                            isinstance(f0[1], tuple) and f0[1] and f0[1][0] == "bin"))
                if arith:
                    # `mask: cap - 1` beside `cap: cap` — arithmetic on the very value (a named constant included) stored in G
                    bj = f0 if f0[0] == "bin" else f0[1]
                    for i, fi in enumerate(t[4]):
                        g0 = strip(fi)
                        if i == j or not isinstance(g0, tuple) or not g0 or g0[0] == "agg" or \
                                (g0[0] == "const" and str(g0[2]) in ("0", "1", "true", "false")):
                            continue
                        if g0 in (strip(bj[2]), strip(bj[3])):
                            out.setdefault(t[2], {}).setdefault(t[5][j], [])
                            if t[5][i] not in out[t[2]][t[5][j]]:
                                out[t[2]][t[5][j]].append(t[5][i])
                    continue
                if not (isinstance(f0, tuple) and f0 and f0[0] == "call") or f0[1].name in ("clone", "new", "default", "to_vec", "to_owned", "into", "from"):
                    continue
                kj = key_of(f0)
                for i, fi in enumerate(t[4]):
                    if i == j:
                        continue
                    g0 = strip(fi)
                    # the stored value behind a cell / box constructor (`order: RefCell::new(order)`)
                    while isinstance(g0, tuple) and g0 and g0[0] == "call" and g0[1].name in ("new", "from", "into", "clone") and \
                            len(g0[2]) == 1 and not g0[1].local:
                        g0 = strip(g0[2][0])
                    if not isinstance(g0, tuple) or not g0 or g0[0] in ("const", "constitem", "agg"):
                        continue
                    ki = key_of(g0)
                    if len(ki) >= 4 and ki != kj and ki in kj:
                        out.setdefault(t[2], {}).setdefault(t[5][j], [])
                        if t[5][i] not in out[t[2]][t[5][j]]:
                            out[t[2]][t[5][j]].append(t[5][i])
    return out


def run(prog):
    out = []
    lf = lazy_fields(prog)
    for adt, pairs in sorted(eager_fields(prog).items()):
        for F, Gs in sorted(pairs.items()):
            lz, src = lf.get(adt, ([], []))
            # handled by the same loop: F must be written again wherever one of its sources is
            out += _check(prog, adt, [F], Gs, eager=True)
    for adt, (lazy, src) in sorted(lf.items()):
        out += _check(prog, adt, lazy, src)
    return out


def _keyed_memo(prog, adt, lzf):
    """the cell remembers (key, value) of a query — what is stored mentions a parameter of the storing method other than
    self: that is a memo of lookups (its key is the business of the cache rules GL / CP), not a summary derived from the
    other fields"""
    for fn in prog.lib_fns:
        if fn.impl_self != adt or "{closure" in fn.npath:
            continue
        for cs in fn.terms.calls:
            if cs.callee.name in ("set", "replace") and len(cs.args) == 2 and _field_of_self(cs.args[0], [lzf]):
                if any(x[0] == "param" and x[1] > 1 for x in mir.subterms(cs.args[1])):
                    return True
    return False


def _check(prog, adt, lazy, src, eager=False):
    out = []
    if not eager:
        lazy = [l for l in lazy if not _keyed_memo(prog, adt, l)]
    if True:
        for fn in prog.lib_fns:
            if fn.impl_self != adt or "{closure" in fn.npath or len(fn.locals) < 2:
                continue
            mut_self = fn.locals[1]["s"].startswith("&mut ")
            if not mut_self and not eager:
                continue
            if not (fn.locals[1]["s"].startswith("&") and adt.split("::")[-1] in fn.locals[1]["s"]):
                continue          # a constructor or an associated function without self

            def mutates(cs):
                """the call changes what its receiver refers to: a std mutator, or a crate method taking `&mut self`"""
                if cs.callee.name in MUTATING and not cs.callee.local:
                    return True
                if cs.callee.local or getattr(cs.callee, "res_local", False):
                    for h in prog.resolve(cs.callee):
                        if len(h.locals) > 1 and h.locals[1]["s"].startswith("&mut ") and h.impl_self != adt:
                            return True
                return False
            te, cfg = fn.terms, fn.cfg

            def recv(cs):
                """the receiver of a call, with a `&mut local` replaced by what the local holds (a RefMut of a field)"""
                a = cs.args[0]
                seen_ = 0
                while isinstance(a, tuple) and a and a[0] == "mutref" and seen_ < 4:
                    v = te.state_in.get(cs.bb, {}).get(a[1])
                    if v is None:
                        break
                    a = v
                    seen_ += 1
                return a
            writes = []          # (block, field)
            for cs in te.calls:
                if cs.args and mutates(cs):
                    f = _field_of_self(recv(cs), src)
                    if f:
                        writes.append((cs.bb, f, cs.line))
            for st in te.stores:
                f = _field_of_self(st[1], src)
                if f:
                    writes.append((st[0], f, st[3] if len(st) > 3 else None))
            if not writes:
                continue
            whole = any(strip(st[1]) in (("deref", ("param", 1)), ("param", 1)) for st in te.stores)
            for lzf in lazy:
                resets = {cs.bb for cs in te.calls if cs.callee.name in RESET and cs.args and _field_of_self(cs.args[0], [lzf])}
                if eager:
                    resets |= {cs.bb for cs in te.calls if cs.args and mutates(cs) and _field_of_self(recv(cs), [lzf])}
                resets |= {st[0] for st in te.stores if _field_of_self(st[1], [lzf])}
                key = "%s:DI:%s%s" % (fn.npath, "eager:" if eager else "", lzf)
                if whole:
                    out.append(inst("DI", key, OK, fn, None, "the whole value is replaced"))
                    continue
                rets = [b for b, blk in enumerate(fn.blocks) if blk["term"]["k"] == "return"]
                bad = None
                for (wb, f, line) in writes:
                    # a path from entry through the write to a return that meets no reset at all
                    to_w = cfg.reachable_from(0, avoid=resets) if 0 not in resets else set()
                    if wb in resets or wb not in (to_w | {0}):
                        continue
                    after = cfg.reachable_from(wb, avoid=resets)
                    if any(r in after or r == wb for r in rets):
                        bad = (f, line)
                        break
                out.append(inst("DI", key, VIOLATION if bad else OK, fn, bad[1] if bad else None,
                                ("%s writes `%s` (line %s) and can return without resetting the derived `%s`%s: the value built "
                                 "from the old contents keeps being served" % (fn.name, bad[0], bad[1], lzf,
                                                                                " (it is reset on other paths only)" if resets else ""))
                                if bad else "every path that writes %s resets `%s`" % (sorted({w[1] for w in writes}), lzf)))
    return out
