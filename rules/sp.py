"""SP — scratch pairing (interprocedural must-pass-through) for property C10.

leaky(f): some path from a call to a scratch *setter* (set_scratch of BddPtr / SddPtr /
BinarySDD / SddOr) or to a leaky callee reaches a return of f without passing a call to
clear_scratch.  Computed as a least fixpoint over the crate call graph with per-function CFG
reachability (unwind edges ignored).
SP1  no externally reachable function (pub API, pub-trait methods, #[no_mangle] exports, the
     binaries' functions) is leaky — except the raw primitives themselves (set_scratch and its
     FFI re-export), allow-listed by name.
SP2  in a BDD traversal helper every recursive descent into a node's children is paired with a
     set_scratch on that node (dominating the descent or unavoidable after it): this is what
     makes BddPtr::clear_scratch's short-circuit ("stop at a node whose slot is empty") complete.
SP3  within one traversal the memo is read and written at the same type.
"""
from collections import defaultdict
from . import mir
from .base import verdict_of, errtext, inst, OK, VIOLATION, UNDECIDED, strip
from .facts import CheckerError
from .mir import show

SETTERS = ("set_scratch",)
CLEARERS = ("clear_scratch",)
PRIMITIVE_ALLOW = {
    "set_scratch": "the raw primitive itself: documented to leave the slot set",
    "bdd_set_scratch": "FFI re-export of the raw primitive",
}
SCRATCH_OWNERS = ("repr::bdd::BddPtr", "repr::sdd::SddPtr", "repr::sdd::binary_sdd::BinarySDD", "repr::sdd::sdd_or::SddOr")


def skip(fn):
    return "::tests::" in fn.npath or fn.name.startswith("test_") or "::test::" in fn.npath


def is_setter(fn):
    return fn.name in SETTERS and fn.impl_self in SCRATCH_OWNERS


def is_clearer_call(cs):
    return cs.callee.name in CLEARERS and any(o.split("::")[-1] in cs.callee.key() for o in SCRATCH_OWNERS)


def outer(prog, fn):
    """outermost named function containing fn (closures / nested fns)"""
    seen = 0
    while fn.parent and seen < 8:
        ps = [g for g in prog.by_npath.get(fn.parent, []) if g.unit == fn.unit]
        if not ps:
            break
        fn = ps[0]
        seen += 1
    return fn


def run(prog):
    out = []
    fns = [f for f in prog.fns if not skip(f)]
    leaky = {}
    for f in fns:
        if is_setter(f):
            leaky[id(f)] = ("primitive", None)
    # call sites with possible callees
    callmap = {}
    extra = {}
    for f in fns:
        if not any(b["term"]["k"] == "call" for b in f.blocks):
            continue
        te = f.terms
        sites = []
        for cs in te.calls:
            if cs.exp and cs.callee.name not in ("set_scratch",):
                continue
            # a closure literal handed to a foreign function (`own.unwrap_or_else(|| compute_and_cache())`,
            # `iter.for_each(|x| ..)`): the callee may run it, so the call site counts as a call of the closure
            cl_targets = []
            for a in cs.args:
                a0 = strip(a)
                while isinstance(a0, tuple) and a0 and a0[0] in ("ref", "deref"):
                    a0 = strip(a0[1])
                if isinstance(a0, tuple) and a0 and a0[0] == "agg" and a0[1] == "closure":
                    cl_targets += [g for g in prog.by_npath.get(a0[2], []) if g.unit == f.unit]
            if cl_targets and not (cs.callee.local or cs.callee.res_local):
                extra[id(cs)] = cl_targets
                sites.append(cs)
                continue
            if not (cs.callee.local or cs.callee.res_local or cs.callee.closure or cs.callee.def_.startswith("rsdd::")
                    or (cs.callee.trait and not cs.callee.trait.startswith(("std::", "core::", "alloc::")))):
                # calls through Fn traits to closures
                if not (cs.callee.name in ("call", "call_mut", "call_once") and cs.callee.closure):
                    continue
            sites.append(cs)
        callmap[id(f)] = (f, sites)

    def lib_resolve(callee, f, cs=None):
        if cs is not None and id(cs) in extra:
            return extra[id(cs)]
        c = callee
        # binaries call the library through its public paths (rsdd::...): map to lib paths by name/self type
        gs = prog.resolve(c)
        if not gs and c.def_.startswith("rsdd::"):
            nm = c.name
            cands = [g for g in prog.lib_fns if g.name == nm]
            seg = c.def_.split("::")
            ty = seg[-2] if len(seg) >= 2 else None
            gs = [g for g in cands if ty and (ty.split("<")[0] in g.npath)]
        return gs

    changed = True
    rounds = 0
    while changed and rounds < 30:
        changed = False
        rounds += 1
        for fid, (f, sites) in callmap.items():
            if fid in leaky:
                continue
            cfg = f.cfg
            clear_bbs = {cs.bb for cs in f.terms.calls if is_clearer_call(cs)}
            for cs in sites:
                gs = lib_resolve(cs.callee, f, cs)
                lk = [g for g in gs if id(g) in leaky]
                if not lk:
                    continue
                # path from after the call to a return avoiding clear blocks?
                start = f.blocks[cs.bb]["term"].get("target")
                if start is None:
                    continue
                reach = cfg.reachable_from(start, avoid=clear_bbs)
                if any(r in reach for r in cfg.returns):
                    leaky[fid] = (lk[0].npath, cs.line)
                    changed = True
                    break
    # ---- SP1
    n_entry = 0
    for f in fns:
        external = (f.unit.endswith("-lib.json") and (f.reachable or f.no_mangle)) or f.unit.endswith("-bin.json")
        if f.kind == "Closure" or not external:
            continue
        touches = id(f) in callmap
        if id(f) in leaky:
            why = leaky[id(f)]
            if f.name in PRIMITIVE_ALLOW and (is_setter(f) or f.no_mangle):
                out.append(inst("SP", "SP1:%s" % f.npath, OK, f, None, "allow-listed: %s" % PRIMITIVE_ALLOW[f.name]))
                continue
            out.append(inst("SP", "SP1:%s" % f.npath, VIOLATION, f, why[1],
                            "externally reachable function can return with scratch set: a path from the call to `%s` "
                            "(line %s) reaches a return without clear_scratch — the next query on a shared node reads a "
                            "stale memo" % (why[0], why[1])))
            n_entry += 1
    # positive instances: the traversal entry points that *do* clean up
    for fid, (f, sites) in callmap.items():
        if fid in leaky:
            continue
        for cs in sites:
            gs = lib_resolve(cs.callee, f, cs)
            lk = [g for g in gs if id(g) in leaky]
            if lk and f.kind != "Closure":
                n_entry += 1
                out.append(inst("SP", "SP1:%s" % f.npath, OK, f, cs.line,
                                "calls leaky `%s` and clears scratch on every path to return" % lk[0].name))
                break
    if n_entry < 5:
        raise CheckerError("SP1: expected >= 5 traversal entry points, found %d" % n_entry)
    out += sp2(prog, fns, leaky)
    out += sp3(prog, fns)
    return out


def short_circuits(fn):
    """a clear_scratch that branches on the node's own slot (stops when it is already empty)"""
    for b, (c, _) in fn.terms.switch_term.items():
        sc = show(c)
        if sc.startswith("discr(next(") or sc.startswith("discr(arg") or sc.startswith("discr(*arg"):
            continue  # the element loop / the match on the pointer's own variant
        return True  # any other test before the descent (today: none) makes the descent conditional
    return False


NODE_VARIANTS = ("BDD", "ComplBDD", "Reg", "Compl")


def sdd_clear_complete(prog, sdd_clear):
    """Every SDD traversal marks the nodes it visits, whatever edge it came through; `clear_scratch` therefore has to reach
    every node below the one it is called on.  Wherever one of the SDD clear functions looks at the variant of a child
    pointer, each of the four node-carrying variants (regular and complemented, binary and general) must go on to a
    clear of the node behind it or to the next round of a walk: an arm that returns for `ComplBDD` / `Compl` ("a literal
    or a constant ends the chain") leaves the memo entries below a complemented edge in place for the next query."""
    out = []
    for f in sdd_clear:
        te, cfg = f.terms, f.cfg
        clear_bbs = {cs.bb for cs in te.calls if cs.callee.name == "clear_scratch"}
        errs, n = [], 0
        for bb, (c, vm) in sorted(te.switch_term.items()):
            if not vm or not (set(vm.values()) & set(NODE_VARIANTS)):
                continue
            term = f.blocks[bb]["term"]
            if term.get("k") != "switch":
                continue
            n += 1
            tmap = {vm.get(v): t for v, t in term.get("targets", []) if v in vm}
            loop_heads = set(cfg.loop_headers)
            for vname in NODE_VARIANTS:
                tgt = tmap.get(vname, term.get("otherwise"))
                if tgt is None:
                    continue
                # is there a way from tgt to a return that passes no clear_scratch call and does not go round a loop again?
                seen, work, leak = set(), [tgt], False
                while work:
                    b = work.pop()
                    if b in seen or b in clear_bbs:
                        continue
                    seen.add(b)
                    k = f.blocks[b]["term"].get("k")
                    if k == "return":
                        leak = True
                        break
                    if k == "unreachable":
                        continue
                    for s_ in cfg.succ[b]:
                        if s_ in loop_heads and any(b in body for h, body in cfg.loop_headers.items() if h == s_):
                            continue      # back edge: the walk goes on with this child
                        work.append(s_)
                if leak:
                    errs.append("for a `%s` child (%s) the function returns without clearing the node behind it: the traversals "
                                "mark nodes below complemented edges like any other, and what they wrote there is read by the "
                                "next query" % (vname, show(c)[:40]))
        key = "SP2:%s:every-node-variant" % f.npath
        if n:
            out.append(inst("SP", key, VIOLATION if errs else OK, f, None,
                            "; ".join(dict.fromkeys(errs)) if errs else "every node-carrying variant of a child is cleared or walked on"))
    return out


def sp2(prog, fns, leaky):
    out = []
    n = 0
    # the SDD side clears unconditionally today; if any of its clear_scratch functions starts to short-circuit,
    # the same marking discipline is required of every SDD traversal
    sdd_clear = [f for f in prog.lib_fns if f.name == "clear_scratch" and f.impl_self in SCRATCH_OWNERS[1:]]
    if len(sdd_clear) < 3:
        raise CheckerError("SP2: expected clear_scratch of SddPtr, BinarySDD, SddOr; found %d" % len(sdd_clear))
    short = [f.npath for f in sdd_clear if short_circuits(f)]
    sdd_short = bool(short)
    out.append(inst("SP", "SP2:sdd-clear-scratch:mode", OK, sdd_clear[0], None,
                    ("short-circuiting (%s): SDD traversals are held to the marking discipline" % short) if sdd_short else
                    "SDD clear_scratch descends unconditionally: completeness does not depend on which nodes a traversal marks"))
    out += sdd_clear_complete(prog, sdd_clear)
    for f in fns:
        if id(f) not in leaky or is_setter(f):
            continue
        if not f.unit.endswith("-lib.json"):
            continue
        o = outer(prog, f)
        te = f.terms
        # a BDD traversal wherever it lives: it marks BddPtr nodes (BddPtr::clear_scratch short-circuits)
        marks_bdd = any(cs.callee.name in SETTERS and "BddPtr" in (cs.callee.res or cs.callee.def_ or cs.callee.key()) for cs in te.calls)
        if not marks_bdd and "repr::bdd" not in f.npath and "decision_nnf" not in f.npath and not (sdd_short and "repr::sdd" in f.npath):
            continue
        cfg = f.cfg
        # recursive descents: calls to the enclosing named traversal function (or itself)
        family = {o.npath, f.npath}
        p = f
        while p.parent:
            family.add(p.parent)
            ps = [g for g in prog.by_npath.get(p.parent, []) if g.unit == f.unit]
            if not ps:
                break
            p = ps[0]
        rec = [cs for cs in te.calls if (cs.callee.res or cs.callee.def_) in family and cs.callee.name not in SETTERS]
        sets = {cs.bb for cs in te.calls if cs.callee.name in SETTERS}
        if not rec:
            continue
        for i, cs in enumerate(rec):
            dom = any(cfg.dominates(s, cs.bb) for s in sets)
            start = f.blocks[cs.bb]["term"].get("target")
            after = start is not None and not any(r in cfg.reachable_from(start, avoid=sets) for r in cfg.returns)
            n += 1
            ok = dom or after
            out.append(inst("SP", "SP2:%s:descent#%d" % (f.npath, i), OK if ok else VIOLATION, f, cs.line,
                            "descent is paired with set_scratch on the visited node (%s)" % ("before" if dom else "after")
                            if ok else
                            "a path descends into the children and returns without marking the visited node: "
                            "clear_scratch's short-circuit would stop above marked descendants"))
    if n < 4:
        raise CheckerError("SP2: expected >= 4 recursive descents in BDD traversal helpers, found %d" % n)
    # the BDD clear itself: a node whose slot it empties has *both* children cleared, on every path.  A traversal
    # marks a node and then its children whatever their sign or kind; the three builders differ in which edges may be
    # complemented, so a descent that depends on the shape of the child pointer is complete for some builders only.
    bclear = [f for f in prog.lib_fns if f.name == "clear_scratch" and f.impl_self == SCRATCH_OWNERS[0]]
    node = prog.adts.get("repr::bdd::BddNode")
    if len(bclear) == 1 and node:
        f = bclear[0]
        te, cfg = f.terms, f.cfg
        kids = [fl["name"] for v in node["variants"] for fl in v["fields"] if "BddPtr" in fl["ty"]]
        slot = [fl["name"] for v in node["variants"] for fl in v["fields"] if "RefCell" in fl["ty"] and "Any" in fl["ty"]]
        writes = {cs.bb for cs in te.calls if cs.callee.name in ("borrow_mut", "take", "replace", "set", "replace_with")
                  and cs.args and slot and show(cs.args[0]).endswith("." + slot[0])}
        errs = []
        if not writes or not kids:
            errs.append("?the write of the node's slot was not found in %s" % f.npath)
        for k in kids:
            desc = {cs.bb for cs in te.calls if cs.callee.name == "clear_scratch" and cs.args and show(cs.args[0]).endswith("." + k)}
            for w in sorted(writes):
                if w in desc:
                    continue
                tgt = cfg.succ[w]
                reach = set()
                for s_ in tgt:
                    reach |= cfg.reachable_from(s_, avoid=desc)
                if any(r in reach for r in cfg.returns):
                    errs.append("clear_scratch empties a node's slot and can return without clearing below its `%s` child: the "
                                "short-circuit (stop at an empty slot) will never come back to that sub-diagram, and the next "
                                "query reads what the previous one left there" % k)
        out.append(inst("SP", "SP2:%s:both-children" % f.npath, verdict_of(sorted(set(errs))), f, None,
                        errtext(sorted(set(errs))) if errs else "every node whose slot is emptied has %s cleared on every path" % " and ".join(kids)))
    else:
        out.append(inst("SP", "SP2:bdd-clear-scratch:both-children", UNDECIDED, None, None, "BddPtr::clear_scratch or BddNode not found"))
    return out


def sp3(prog, fns):
    out = []
    groups = defaultdict(lambda: {"read": set(), "write": set(), "fn": None})
    for f in fns:
        if not f.unit.endswith("-lib.json") or not any(b["term"]["k"] == "call" for b in f.blocks):
            continue
        te = f.terms
        o = outer(prog, f)
        for cs in te.calls:
            if cs.callee.name == "scratch" and cs.callee.targs and any(x.split("::")[-1] in cs.callee.key() for x in SCRATCH_OWNERS[:2]):
                groups[o.npath]["read"].add(cs.callee.targs[0])
                groups[o.npath]["fn"] = o
            if cs.callee.name == "set_scratch" and cs.callee.targs and any(x.split("::")[-1] in cs.callee.key() for x in SCRATCH_OWNERS[:2]):
                groups[o.npath]["write"].add(cs.callee.targs[0])
                groups[o.npath]["fn"] = o
    n = 0
    for name, g in sorted(groups.items()):
        if not g["read"] or not g["write"]:
            continue
        if g["fn"].npath.startswith("ffi::"):
            continue
        n += 1
        ok = g["read"] == g["write"] and len(g["read"]) == 1
        out.append(inst("SP", "SP3:%s" % name, OK if ok else VIOLATION, g["fn"], None,
                        "memo read and written at type %s" % sorted(g["read"])[0] if ok else
                        "memo is read at %s but written at %s: the typed downcast never matches, so nothing is memoised "
                        "(or a stale value of another type is trusted)" % (sorted(g["read"]), sorted(g["write"]))))
    if n < 4:
        raise CheckerError("SP3: expected >= 4 traversals with typed memo, found %d" % n)
    return out
