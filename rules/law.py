"""LAW — algebraic laws of the shipped weight types, proved on the source terms.

For the numeric struct semirings (RealSemiring, Complex, ExpectedUtility, RationalSemiring) the
bodies of add / mul / sub / one / zero are extracted as component expressions over the operands'
fields and composed symbolically; every semiring axiom (associativity and commutativity of +,
associativity of *, commutativity of * where counting relies on it, identities, annihilation, left
and right distributivity, and for Ring impls (a+b)-b = a) is then a polynomial identity over ℚ in
the component variables, decided by normalising both sides.  That is a proof for exactly
representable values, which is what the property claims.
BooleanSemiring: + is ∨ and * is ∧ (truth tables over {0,1}); identities false / true.
FiniteField: the value handed to the final reduction is congruent mod P to the integer operation
(P ≡ 0 in the polynomial), for add, sub and the single-multiplication arm of mul.
Polynomial: + is pointwise on one index, * is a convolution whose write *accumulates* into the
slot i+j, zero/one are (all-zero, len 0) / (1 at index 0, len 1).
Lattice ops (ExpectedUtility, RealSemiring): join / meet / choose are evaluated over the finite set
of component orderings {<,=,>}^n: whenever partial_cmp relates a and b, join and choose return the
larger and meet the smaller; join and meet are idempotent and commutative.
"""
import itertools
from fractions import Fraction
from . import mir, canon
from .base import inst, OK, VIOLATION, UNDECIDED, strip, bool_arms, verdict_of, errtext
from .facts import CheckerError
from .mir import show

SR = "util::semirings::"
TRAIT = "util::semirings::semiring_traits::"


# ------------------------------------------------------------------ tiny polynomial arithmetic
class Poly(dict):
    """monomial (sorted tuple of var names, with repetition) -> Fraction"""
    @staticmethod
    def const(c):
        return Poly({(): Fraction(c)}) if c else Poly()

    @staticmethod
    def var(v):
        return Poly({(v,): Fraction(1)})

    def __add__(self, o):
        r = Poly(self)
        for m, c in o.items():
            r[m] = r.get(m, 0) + c
            if r[m] == 0:
                del r[m]
        return r

    def __neg__(self):
        return Poly({m: -c for m, c in self.items()})

    def __sub__(self, o):
        return self + (-o)

    def __mul__(self, o):
        r = Poly()
        for m1, c1 in self.items():
            for m2, c2 in o.items():
                m = tuple(sorted(m1 + m2))
                r[m] = r.get(m, 0) + c1 * c2
                if r[m] == 0:
                    del r[m]
        return r


class NotPoly(Exception):
    pass


def float_const(t):
    import struct
    try:
        bits = int(t[2])
        if t[1] == "f64":
            v = struct.unpack("<d", struct.pack("<Q", bits))[0]
            return Fraction(v)
        return Fraction(bits)
    except Exception:
        raise NotPoly("constant %s" % (t,))


def to_poly(t, env):
    """t over arg1.F / arg2.F -> Poly given env: {(argno, field): Poly}"""
    t = strip(t)
    if t[0] == "field" and strip(t[1])[0] == "param":
        k = (strip(t[1])[1], t[2])
        if k in env:
            return env[k]
        raise NotPoly("field %s of arg%d" % (t[2], strip(t[1])[1]))
    if t[0] == "field" and t[2] == "0" and strip(t[1])[0] == "bin":
        return to_poly(t[1], env)
    if t[0] == "bin":
        op = t[1].replace("WithOverflow", "")
        a, b = to_poly(t[2], env), to_poly(t[3], env)
        if op == "Add":
            return a + b
        if op == "Sub":
            return a - b
        if op == "Mul":
            return a * b
        raise NotPoly("operator %s" % op)
    if t[0] == "const":
        return Poly.const(float_const(t))
    if t[0] == "cparam":
        return Poly.var("P")
    if t[0] == "call" and t[1].name == "new" and "Rational" in t[1].key() and len(t[2]) == 2:
        n, d = strip(t[2][0]), strip(t[2][1])
        return Poly.const(Fraction(int(n[2]), int(d[2])))
    raise NotPoly("term %s" % show(t)[:60])


def _apply_fnrefs(t):
    """`op(a, b)` with `op` a function item handed in as an argument: the arithmetic operator traits become the MIR
    operator, anything else a direct call"""
    OPS = {"add": "Add", "sub": "Sub", "mul": "Mul", "div": "Div"}

    def go(x):
        if not isinstance(x, tuple) or not x:
            return x
        if x[0] == "call":
            args = tuple(go(a) for a in x[2])
            if x[1].name in ("call_once", "call_mut", "call") and len(args) == 2:
                f, tup = strip(args[0]), strip(args[1])
                if isinstance(f, tuple) and f and f[0] == "agg" and f[1] == "closure" and isinstance(tup, tuple) and \
                        tup[:2] == ("agg", "tuple") and 1 <= len(tup[4]) <= 2 and mir.CURRENT is not None:
                    # a closure literal handed in as the callback (`self.zip_with(rhs, |a, b| a + b)`): its body, applied
                    ops = tuple(tup[4])
                    r = canon.apply_closure(mir.CURRENT, f, ops[0], ops[1] if len(ops) == 2 else None)
                    if r is not None:
                        return go(r)
                if isinstance(f, tuple) and f and f[0] == "fnref" and isinstance(tup, tuple) and tup[:2] == ("agg", "tuple"):
                    ops = tuple(tup[4])
                    if f[1].name in OPS and "ops::" in (f[1].key() or "") and len(ops) == 2:
                        return ("bin", OPS[f[1].name], ops[0], ops[1])
                    return ("call", f[1], ops, ())
            return (x[0], x[1], args) + tuple(x[3:])
        return tuple(go(a) if isinstance(a, tuple) else a for a in x)
    return go(t)


class Algebra:
    def __init__(self, prog, adt):
        self.prog, self.adt = prog, adt
        a = prog.adts[adt]
        self.fields = [f["name"] for f in a["variants"][0]["fields"]]
        self.ops = {}
        for tr, nm in (("std::ops::Add", "add"), ("std::ops::Mul", "mul"), ("std::ops::Sub", "sub")):
            fs = prog.find(name=nm, self_adt=adt, impl_trait=tr, unit="rsdd-lib")
            if fs:
                self.ops[nm] = fs[0]
        for nm in ("one", "zero"):
            self.ops[nm] = prog.find1(name=nm, self_adt=adt, impl_trait=TRAIT + "Semiring", unit="rsdd-lib")

    def pieces(self, fn):
        """the result of an operation as pieces [(guard-lists, components)]: one literal, or a join of literals each
        reached under its own tests (a fast path `if x.0 == 0.0 { return ZERO }` in front of the general formula).
        guard-lists: one list of branch facts per way of reaching the piece."""
        te = fn.terms
        r = strip(te.ret)
        if r[0] == "call" and (r[1].local or getattr(r[1], "res_local", False)):
            # the operation may be written through a private helper of the type (`self.zip_with(rhs, ops::Add::add)`):
            # the helper's body with the arguments in place, function items applied
            from . import canon
            r = strip(_apply_fnrefs(canon.inline_top(self.prog, te, r)))
        if r[0] == "agg" and r[2] == self.adt:
            return [([[]], r[4])]
        out = []
        if r[0] == "phi":
            for pb, v in r[2]:
                v = strip(v)
                if not (v[0] == "agg" and v[2] == self.adt):
                    raise NotPoly("%s does not return a %s literal: %s" % (fn.name, self.adt, show(r)[:60]))
                pbn = int(str(pb).replace("bb", "")) if not isinstance(pb, int) else pb
                out.append((te.edge_guards(pbn) if len(te.cfg.pred.get(pbn, [])) > 1 else [list(te.facts_at(pbn))], v[4]))
            return out
        if r[0] == "gamma":
            for lab, v in r[2]:
                v = strip(v)
                if not (v[0] == "agg" and v[2] == self.adt):
                    raise NotPoly("%s does not return a %s literal: %s" % (fn.name, self.adt, show(r)[:60]))
                out.append(([[(r[1], lab, None, None)]], v[4]))
            return out
        raise NotPoly("%s does not return a %s literal: %s" % (fn.name, self.adt, show(r)[:60]))

    @staticmethod
    def equations(guards):
        """{(argno, field): constant} stated by a fact list (tests `x.f == c` that came out true)"""
        eqs = {}
        for c, v, _, _ in guards:
            c = strip(c)
            truthy = v != "0"
            while c[0] == "un" and c[1] == "Not":
                c, truthy = strip(c[2]), not truthy
            if c[0] == "bin" and ((c[1] == "Eq" and truthy) or (c[1] == "Ne" and not truthy)):
                for a, b in ((strip(c[2]), strip(c[3])), (strip(c[3]), strip(c[2]))):
                    if a[0] == "field" and strip(a[1])[0] == "param" and b[0] == "const":
                        eqs[(strip(a[1])[1], a[2])] = float_const(b)
        return eqs

    def comps(self, fn):
        """components of the general formula: the piece that is not reached under an equation on an operand"""
        ps = self.pieces(fn)
        general = [c for gs, c in ps if any(not self.equations(g) for g in gs)]
        if len(general) != 1:
            raise NotPoly("%s has %d general cases" % (fn.name, len(general)))
        return general[0]

    def fast_paths(self, fn):
        """[(equations, components)] for the pieces reached under an equation on an operand, per way of reaching them"""
        out = []
        for gs, c in self.pieces(fn):
            for g in gs:
                e = self.equations(g)
                if e:
                    out.append((e, c))
        return out

    def apply(self, nm, x, y=None):
        fn = self.ops[nm]
        env = {}
        for i, f in enumerate(self.fields):
            env[(1, f)] = x[i] if x else None
            if y is not None:
                env[(2, f)] = y[i]
        return [to_poly(c, env) for c in self.comps(fn)]

    def const(self, nm):
        return [to_poly(c, {}) for c in self.comps(self.ops[nm])]

    def sym(self, name):
        return [Poly.var("%s.%s" % (name, f)) for f in self.fields]


def numeric_laws(prog, adt, mul_comm=True):
    out = []
    A = Algebra(prog, adt)
    short = adt.split("::")[-1]
    try:
        a, b, c = A.sym("a"), A.sym("b"), A.sym("c")
        add = lambda x, y: A.apply("add", x, y)
        mul = lambda x, y: A.apply("mul", x, y)
        one, zero = A.const("one"), A.const("zero")
        laws = [
            ("add-assoc", add(add(a, b), c), add(a, add(b, c))),
            ("add-comm", add(a, b), add(b, a)),
            ("add-identity", add(a, zero), a),
            ("mul-assoc", mul(mul(a, b), c), mul(a, mul(b, c))),
            ("mul-identity-right", mul(a, one), a),
            ("mul-identity-left", mul(one, a), a),
            ("mul-annihilate", mul(a, zero), zero),
            ("distrib-left", mul(a, add(b, c)), add(mul(a, b), mul(a, c))),
            ("distrib-right", mul(add(a, b), c), add(mul(a, c), mul(b, c))),
        ]
        if mul_comm:
            laws.append(("mul-comm", mul(a, b), mul(b, a)))
        if "sub" in A.ops:
            laws.append(("sub-inverts-add", A.apply("sub", add(a, b), b), a))
    except NotPoly as e:
        return [inst("LAW", "%s:semiring" % adt, UNDECIDED, A.ops.get("mul"), None, "operations are not polynomial terms: %s" % e)]
    DEFS = {
        "RealSemiring": {"add": lambda x, y: [x[0] + y[0]], "mul": lambda x, y: [x[0] * y[0]]},
        "RationalSemiring": {"add": lambda x, y: [x[0] + y[0]], "mul": lambda x, y: [x[0] * y[0]]},
        "Complex": {"add": lambda x, y: [x[0] + y[0], x[1] + y[1]],
                    "mul": lambda x, y: [x[0] * y[0] - x[1] * y[1], x[0] * y[1] + x[1] * y[0]]},
        # (probability, expected utility): probabilities multiply, utilities follow the product rule
        "ExpectedUtility": {"add": lambda x, y: [x[0] + y[0], x[1] + y[1]],
                            "mul": lambda x, y: [x[0] * y[0], x[0] * y[1] + x[1] * y[0]]},
    }
    if short in DEFS:
        for opn, f in DEFS[short].items():
            got = A.apply(opn, a, b)
            want = f(a, b)
            ok = all(dict(g) == dict(w) for g, w in zip(got, want))
            laws_extra = "%s is the %s %s" % (opn, short, {"add": "sum", "mul": "product"}[opn])
            detail = laws_extra if ok else "%s of %s is not its defining formula: component differs by %s" % (
                opn, short, fmt_poly([g - w for g, w in zip(got, want) if dict(g) != dict(w)][0]))
            out.append(inst("LAW", "%s:%s-definition" % (adt, opn), OK if ok else VIOLATION, A.ops[opn], None, detail))
    # a fast path must return what the general formula returns under the fast path's own condition
    for opn in ("add", "mul", "sub"):
        if opn not in A.ops:
            continue
        try:
            fps = A.fast_paths(A.ops[opn])
        except NotPoly:
            fps = []
        for k, (eqs, comps) in enumerate(fps, 1):
            env = {}
            for i, f in enumerate(A.fields):
                env[(1, f)] = Poly.const(eqs[(1, f)]) if (1, f) in eqs else a[i]
                env[(2, f)] = Poly.const(eqs[(2, f)]) if (2, f) in eqs else b[i]
            try:
                got = [to_poly(c, env) for c in comps]
                want = [to_poly(c, env) for c in A.comps(A.ops[opn])]
            except NotPoly as e:
                out.append(inst("LAW", "%s:%s-fast-path#%d" % (adt, opn, k), UNDECIDED, A.ops[opn], None, str(e)))
                continue
            bad = [(A.fields[i], got[i], want[i]) for i in range(len(got)) if dict(got[i]) != dict(want[i])]
            cond = ", ".join("%s.%s = %s" % ("self" if an == 1 else "rhs", f, v) for (an, f), v in sorted(eqs.items()))
            out.append(inst("LAW", "%s:%s-fast-path#%d" % (adt, opn, k), VIOLATION if bad else OK, A.ops[opn], None,
                            ("the shortcut of %s taken when %s returns component `%s` = %s, but the general formula gives %s "
                             "there: the operation is no longer the %s of the semiring on those operands (laws such as "
                             "distributivity fail)" % (opn, cond, bad[0][0], fmt_poly(bad[0][1]), fmt_poly(bad[0][2]), opn))
                            if bad else "the shortcut taken when %s agrees with the general formula" % cond))
    for nm, lhs, rhs in laws:
        ok = all(dict(l) == dict(r) for l, r in zip(lhs, rhs)) and len(lhs) == len(rhs)
        fn = A.ops["sub"] if nm.startswith("sub") else (A.ops["add"] if nm.startswith("add") else A.ops["mul"])
        detail = "%s holds as a polynomial identity in the components" % nm
        if not ok:
            bad = [(A.fields[i], lhs[i], rhs[i]) for i in range(len(lhs)) if dict(lhs[i]) != dict(rhs[i])]
            f, l, r = bad[0]
            detail = "%s fails for %s in component `%s`: lhs − rhs = %s" % (nm, short, f, fmt_poly(l - r))
        out.append(inst("LAW", "%s:%s" % (adt, nm), OK if ok else VIOLATION, fn, None, detail))
    return out


def fmt_poly(p):
    if not p:
        return "0"
    return " + ".join("%s%s" % ("" if c == 1 else "%s·" % c, "·".join(m) or "1") for m, c in sorted(p.items())[:4])


# ------------------------------------------------------------------ Boolean
def bool_eval(t, env):
    t = strip(t)
    if t[0] == "field" and strip(t[1])[0] == "param":
        return env[(strip(t[1])[1], t[2])]
    if t[0] == "const":
        return t[2] == "1"
    if t[0] == "gamma":
        ba = bool_arms(t)
        if ba:
            return bool_eval(ba[2], env) if bool_eval(ba[0], env) else bool_eval(ba[1], env)
    if t[0] == "bin" and t[1] in ("BitOr", "BitAnd", "BitXor", "Eq", "Ne"):
        a, b = bool_eval(t[2], env), bool_eval(t[3], env)
        return {"BitOr": a or b, "BitAnd": a and b, "BitXor": a != b, "Eq": a == b, "Ne": a != b}[t[1]]
    if t[0] == "un" and t[1] == "Not":
        return not bool_eval(t[2], env)
    raise NotPoly("boolean term %s" % show(t)[:60])


def boolean_laws(prog):
    adt = SR + "boolean::BooleanSemiring"
    A = Algebra(prog, adt)
    out = []
    for nm, tf, sym in (("add", lambda x, y: x or y, "∨"), ("mul", lambda x, y: x and y, "∧")):
        fn = A.ops[nm]
        try:
            comp = A.comps(fn)[0]
            bad = None
            for x, y in itertools.product([False, True], repeat=2):
                got = bool_eval(comp, {(1, "0"): x, (2, "0"): y})
                if got != tf(x, y):
                    bad = (x, y, got)
            out.append(inst("LAW", "%s:%s" % (adt, nm), VIOLATION if bad else OK, fn, None,
                            "Boolean %s is %s" % (nm, sym) if not bad else
                            "Boolean semiring %s(%s, %s) = %s; the Boolean semiring's %s is %s (T+T must be T: with weights "
                            "(T,T) the count asks whether *some* model is compatible)" % (nm, bad[0], bad[1], bad[2], nm, sym)))
        except NotPoly as e:
            out.append(inst("LAW", "%s:%s" % (adt, nm), UNDECIDED, fn, None, str(e)))
    for nm, want in (("one", True), ("zero", False)):
        fn = A.ops[nm]
        c = strip(A.comps(fn)[0])
        ok = c[0] == "const" and (c[2] == "1") == want
        out.append(inst("LAW", "%s:%s" % (adt, nm), OK if ok else VIOLATION, fn, None,
                        "%s = %s" % (nm, want) if ok else "%s is %s" % (nm, show(c))))
    return out


# ------------------------------------------------------------------ finite field congruences
def field_laws(prog):
    FFT = SR + "finitefield::FiniteField"
    out = []
    for tr, nm, want in (("std::ops::Add", "add", lambda a, b: a + b), ("std::ops::Sub", "sub", lambda a, b: a - b),
                         ("std::ops::Mul", "mul", lambda a, b: a * b)):
        fn = prog.find1(name=nm, self_adt=FFT, impl_trait=tr, unit="rsdd-lib")
        r = strip(fn.terms.ret)
        key = "%s:%s≡integer-%s" % (FFT, nm, nm)
        if r[0] == "agg" and r[2] == FFT:
            inner = strip(r[4][0])          # a literal: range is NB-inv's business, congruence is checked here
        elif mir.is_call(r, "new"):
            inner = strip(r[2][0])
        else:
            out.append(inst("LAW", key, UNDECIDED, fn, None, "result is neither FiniteField::new(..) nor a literal"))
            continue
        # resolve a single-multiplication helper arm: mul_mod(a, b) with γ(P <= 2^64; .. (a*b)%P ..)
        terms = []
        if mir.is_call(inner) and inner[1].local:
            gs = prog.resolve(inner[1])
            if len(gs) == 1:
                g = gs[0]

                def alts(x):
                    x = strip(x)
                    if x[0] in ("gamma", "phi"):
                        o = []
                        for _, v in x[2]:
                            o += alts(v)
                        return o
                    return [x]
                # the *results* of the helper that are `e % P` (an operand reduced before a loop is not a result)
                for x in alts(g.terms.ret):
                    if x[0] == "bin" and x[1] == "Rem" and strip(x[3]) == ("cparam", "P"):
                        terms.append((x[2], {(1, "v"): None}, g))
        else:
            def leaves(x):
                x = strip(x)
                if x[0] in ("gamma", "phi"):
                    out_ = []
                    for _, v in x[2]:
                        out_ += leaves(v)
                    return out_
                if x[0] == "bin" and x[1] == "Rem" and strip(x[3]) == ("cparam", "P"):
                    return leaves(x[2])
                return [x]
            for x in leaves(inner):
                terms.append((x, None, fn))
        a, b = Poly.var("a"), Poly.var("b")
        decided = False
        errs = []
        for t, _, g in terms:
            try:
                if g is fn:
                    p = to_poly(t, {(1, "v"): a, (2, "v"): b})
                else:
                    p = to_poly_params(t, {1: a, 2: b})
                p0 = Poly({m: c for m, c in p.items() if "P" not in m})   # P ≡ 0
                decided = True
                if dict(p0) != dict(want(a, b)):
                    errs.append("value before reduction is %s, which is ≡ %s (mod P), not a %s b" % (show(t)[:50], fmt_poly(p0), {"add": "+", "sub": "−", "mul": "·"}[nm]))
            except NotPoly:
                continue
        if not decided:
            out.append(inst("LAW", key, UNDECIDED, fn, None, "no polynomial arm found"))
        else:
            out.append(inst("LAW", key, VIOLATION if errs else OK, fn, None,
                            "; ".join(errs) if errs else "value before `% P` is congruent to the integer operation"))
    return out


def to_poly_params(t, env):
    t = strip(t)
    if t[0] == "param":
        if t[1] in env:
            return env[t[1]]
        raise NotPoly("param")
    if t[0] == "field" and t[2] == "0" and strip(t[1])[0] == "bin":
        return to_poly_params(t[1], env)
    if t[0] == "bin":
        op = t[1].replace("WithOverflow", "")
        a, b = to_poly_params(t[2], env), to_poly_params(t[3], env)
        if op == "Add":
            return a + b
        if op == "Sub":
            return a - b
        if op == "Mul":
            return a * b
        raise NotPoly(op)
    if t[0] == "cparam":
        return Poly.var("P")
    if t[0] == "const":
        return Poly.const(Fraction(int(t[2])))
    raise NotPoly("term")


# ------------------------------------------------------------------ truncated polynomials
class Und2(Exception):
    pass


def _mul_pairs(prog, mul, store, idxs):
    te = mul.terms
    bb, pt, val, line = store
    MAXC = None
    for pth, c in prog.consts.items():
        if pth.endswith("MAX_COEFFS") and c.get("val"):
            MAXC = int(c["val"])
    if MAXC is None:
        raise Und2("MAX_COEFFS not found")

    def iter_local(ix):
        ix = strip(ix)
        for x in [ix] + list(mir.subterms(ix)):
            if mir.is_call(x, "next") and x[2] and strip(x[2][0])[0] == "mutref":
                return strip(x[2][0])[1]
        return None

    def range_of(loc):
        for (h, l), init in te.mu_init.items():
            if l == loc:
                r = strip(init)
                while mir.is_call(r) and r[1].name in ("into_iter", "iter") and r[2]:
                    r = strip(r[2][0])
                if r[0] == "agg" and "Range" in str(r[2]) and len(r[4]) == 2:
                    return r[4][0], r[4][1], h
        return None
    locs = [iter_local(i) for i in idxs]
    if None in locs or len(locs) != 2:
        raise Und2("the two loop counters of the product were not found")
    rngs = [range_of(l) for l in locs]
    if None in rngs:
        raise Und2("a loop of the product is not a range loop")
    # which index is the outer one: the loop whose header dominates the other's
    (i_ix, i_rng), (j_ix, j_rng) = (idxs[0], rngs[0]), (idxs[1], rngs[1])
    if not mul.cfg.dominates(i_rng[2], j_rng[2]):
        (i_ix, i_rng), (j_ix, j_rng) = (j_ix, j_rng), (i_ix, i_rng)
    which = {}        # base name of the array each counter indexes
    v = strip(val)
    for x in mir.subterms(v):
        if x[0] == "index" and strip(x[2]) == strip(i_ix):
            which["i"] = show(strip(x[1]))
        if x[0] == "index" and strip(x[2]) == strip(j_ix):
            which["j"] = show(strip(x[1]))

    def ev(t, env):
        t = strip(t)
        if t == strip(i_ix):
            return env["i"]
        if t == strip(j_ix):
            if "j" not in env:
                raise Und2("outer bound depends on the inner counter")
            return env["j"]
        if t[0] == "const":
            return int(t[2])
        if t[0] == "constitem":
            if t[1].endswith("MAX_COEFFS"):
                return MAXC
            raise Und2("constant %s" % t[1])
        if t[0] == "field" and t[2] == "len" and strip(t[1])[0] == "param":
            return env["len%d" % strip(t[1])[1]]
        if t[0] == "field" and t[2] == "0" and strip(t[1])[0] == "bin":
            return ev(t[1], env)
        if t[0] == "cast":
            return ev(t[2], env)
        if t[0] == "bin":
            op = t[1].replace("WithOverflow", "")
            a, b = ev(t[2], env), ev(t[3], env)
            if op == "Add":
                return a + b
            if op == "Sub":
                if a - b < 0:
                    raise Und2("negative bound")
                return a - b
            if op in ("Lt", "Le", "Gt", "Ge", "Eq", "Ne"):
                return int({"Lt": a < b, "Le": a <= b, "Gt": a > b, "Ge": a >= b, "Eq": a == b, "Ne": a != b}[op])
            raise Und2("operator %s" % op)
        if mir.is_call(t) and t[1].name in ("min", "max") and len(t[2]) == 2:
            a, b = ev(t[2][0], env), ev(t[2][1], env)
            return min(a, b) if t[1].name == "min" else max(a, b)
        if mir.is_call(t) and t[1].name in ("saturating_sub",) and len(t[2]) == 2:
            return max(0, ev(t[2][0], env) - ev(t[2][1], env))
        if t[0] == "mu":
            init = te.mu_init.get((t[1], t[2]))
            ups = te.mu_update.get((t[1], t[2]), [])
            if init is not None and all(strip(u) == t for u in ups):
                return ev(init, env)
        raise Und2("bound %s" % show(t)[:40])
    guards = [(strip(c), val_ != "0") for c, val_, _, _ in te.facts_at(bb)
              if strip(c)[0] == "bin" and strip(c)[1] in ("Lt", "Le", "Gt", "Ge") and "next(" in show(c) and "discr" not in show(c)]
    # the bounds test written as a checked access: `let Some(slot) = new_coeffs.get_mut(i + j) else { continue }` holds
    # exactly when i + j is below the array's length, MAX_COEFFS
    for c, val_, _, _ in te.facts_at(bb):
        c0 = strip(c)
        if c0[0] == "discr" and mir.is_call(strip(c0[1])) and strip(c0[1])[1].name in ("get_mut", "get") and len(strip(c0[1])[2]) == 2 \
                and val_ in ("1", ("not", ("0",))):
            guards.append((("bin", "Lt", strip(c0[1])[2][1], ("const", "usize", str(MAXC))), True))
    self_i = "arg1" in which.get("i", "arg1")
    errs = []
    for l1 in (0, 1, 2, 3, MAXC - 1, MAXC):
        for l2 in (0, 1, 2, 3, MAXC - 1, MAXC):
            env0 = {"len1": l1, "len2": l2}
            li, lj = (l1, l2) if self_i else (l2, l1)
            want = {(i, j) for i in range(li) for j in range(lj) if i + j < MAXC}
            got = set()
            for i in range(ev(i_rng[0], dict(env0, i=0)), ev(i_rng[1], dict(env0, i=0))):
                env = dict(env0, i=i)
                for j in range(ev(j_rng[0], env), ev(j_rng[1], env)):
                    env["j"] = j
                    if all(bool(ev(c, env)) == truth for c, truth in guards):
                        got.add((i, j))
            if got != want:
                miss, extra = sorted(want - got), sorted(got - want)
                errs.append("for operand lengths %d and %d the product %s: e.g. the term self[%d]·rhs[%d] of degree %d" % (
                    l1, l2, "skips pairs it must add" if miss else "adds pairs it must not",
                    (miss or extra)[-1][0] if self_i else (miss or extra)[-1][1], (miss or extra)[-1][1] if self_i else (miss or extra)[-1][0],
                    sum((miss or extra)[-1])))
                return errs
    return errs


def polynomial_laws(prog):
    PA = SR + "polynomial_semiring_implementation::Polynomial"
    out = []
    def slot(t):
        """`*arr.get_mut(i)?` read or written is arr[i]"""
        t = strip(t)
        while isinstance(t, tuple) and t and t[0] in ("deref", "ref"):
            t = strip(t[1])
        if isinstance(t, tuple) and t and t[0] == "field" and t[2] == "0" and isinstance(t[1], tuple) and t[1][0] == "as" and t[1][2] == "Some":
            g = strip(t[1][1])
            if (mir.is_call(g, "get_mut") or mir.is_call(g, "get")) and len(g[2]) == 2:
                base = strip(g[2][0])
                while isinstance(base, tuple) and base and base[0] in ("cast", "ref", "deref"):
                    base = strip(base[2] if base[0] == "cast" else base[1])
                return ("index", base, g[2][1])
        return t

    def canon_slots(t):
        t = slot(t)
        if not isinstance(t, tuple) or not t:
            return t
        if t[0] == "call":
            return (t[0], t[1], tuple(canon_slots(a) for a in t[2])) + tuple(t[3:])
        return tuple(canon_slots(a) if isinstance(a, tuple) else a for a in t)

    mul = prog.find1(name="mul", self_adt=PA, impl_trait="std::ops::Mul", unit="rsdd-lib")
    te = mul.terms
    stores = [(bb, canon_slots(pt), canon_slots(val), line) for bb, pt, val, line in te.stores]
    stores = [s for s in stores if s[1][0] == "index"]
    errs = []
    idxs = []
    if len(stores) != 1:
        errs.append("%sexpected one coefficient write in the body of mul, found %d" % ("?" if not stores else "", len(stores)))
    else:
        bb, pt, val, line = stores[0]
        idx = strip(pt[2])
        v = strip(val)
        ok = False
        if v[0] == "bin" and v[1] == "Add" or mir.is_call(v, "add"):
            ops = [strip(v[2]), strip(v[3])] if v[0] == "bin" else [strip(x) for x in v[2]]
            reads_same = [o for o in ops if o[0] == "index" and strip(o[2]) == idx and strip(o[1]) == strip(pt[1])]
            prods = [o for o in ops if (o[0] == "bin" and o[1] == "Mul") or mir.is_call(o, "mul")]
            if reads_same and prods:
                p = prods[0]
                fs = [strip(p[2]), strip(p[3])] if p[0] == "bin" else [strip(x) for x in p[2]]
                bases = sorted(show(strip(f[1]))[-18:] for f in fs if f[0] == "index")
                idxs = [strip(f[2]) for f in fs if f[0] == "index"]
                # index of the write = i + j of the two read indices
                if len(idxs) == 2 and idx[0] in ("field", "bin"):
                    s = idx[1] if idx[0] == "field" else idx
                    s = strip(s)
                    if s[0] == "bin" and s[1].startswith("Add") and {repr(strip(s[2])), repr(strip(s[3]))} == {repr(i) for i in idxs} \
                            and bases == ["arg1.coefficients", "arg2.coefficients"]:
                        ok = True
        if not ok:
            errs.append("coefficient write at line %d is `%s := %s`: a product must *accumulate* new[i+j] + self[i]·rhs[j] "
                        "(several (i, j) hit one slot; overwriting loses cross terms)" % (line, show(pt)[:40], show(v)[:80]))
    out.append(inst("LAW", "%s:mul-convolution" % PA, verdict_of(errs), mul, None,
                    errtext(errs) if errs else "new[i+j] = new[i+j] + self[i]·rhs[j]"))
    # which pairs (i, j) the write is executed for: every pair with i < len1, j < len2, i + j < MAX_COEFFS and no other.
    # The loop bounds and the guards of the write are evaluated for concrete small lengths (index arithmetic over a
    # finite range, as VT does for slices) — a clamp that is off by one loses exactly the terms of the top degree.
    perrs = []
    if len(stores) == 1 and not errs:
        try:
            perrs = _mul_pairs(prog, mul, stores[0], idxs)
        except Und2 as e:
            perrs = ["?%s" % e]
    elif not errs:
        perrs = ["?no single coefficient write"]
    if perrs or not errs:
        out.append(inst("LAW", "%s:mul-pairs-complete" % PA, verdict_of(perrs), mul, None,
                        errtext(perrs) if perrs else "the write runs for exactly the pairs i < len1, j < len2, i + j < MAX_COEFFS"))
    add = prog.find1(name="add", self_adt=PA, impl_trait="std::ops::Add", unit="rsdd-lib")
    te = add.terms
    stores = [s for s in te.stores if s[1][0] == "index"]
    errs = []
    zipped = None
    if not stores:
        # new.iter_mut().zip(a.iter().zip(b.iter())).take(n).for_each(|(slot, (x, y))| *slot = x + y)
        for cs in te.calls:
            if cs.callee.name != "for_each" or len(cs.args) != 2:
                continue
            src = strip(cs.args[0])
            while mir.is_call(src, "take") or mir.is_call(src, "into_iter"):
                src = strip(src[2][0])
            clo = strip(cs.args[1])
            cf = [g for g in prog.lib_fns if isinstance(clo, tuple) and clo and clo[0] == "agg" and clo[1] == "closure" and g.npath == clo[2]]
            if mir.is_call(src, "zip") and mir.is_call(strip(src[2][0]), "iter_mut") and mir.is_call(strip(src[2][1]), "zip") and len(cf) == 1:
                inner = strip(src[2][1])
                ops_ = sorted(show(strip(a_))[-17:] for a_ in inner[2])
                sts = cf[0].terms.stores
                if len(sts) == 1:
                    tgt, v_ = show(strip(sts[0][1])), strip(sts[0][2])
                    parts = sorted(show(strip(x_)) for x_ in (v_[2:4] if v_[0] == "bin" and v_[1] == "Add" else (v_[2] if mir.is_call(v_, "add") else [])))
                    zipped = (tgt == "arg2.0" and parts == ["arg2.1.0", "arg2.1.1"] and ops_ == ["arg1.coefficients", "arg2.coefficients"])
    if zipped is None and not stores:
        # the same as a `for` loop over the zipped iterators
        for (bb, pt, val, line) in te.stores:
            p_, v_ = strip(pt), strip(val)
            item = p_[1] if p_[0] == "field" and p_[2] == "0" else None
            its = [x for x in mir.subterms(p_) if mir.is_call(x, "next") and x[2] and strip(x[2][0])[0] == "mutref"]
            if item is None or not its:
                continue
            init = None
            for (h, l), i_ in te.mu_init.items():
                if l == strip(its[0][2][0])[1]:
                    init = strip(i_)
            src = init
            while src is not None and (mir.is_call(src, "take") or mir.is_call(src, "into_iter")):
                src = strip(src[2][0])
            if src is not None and mir.is_call(src, "zip") and mir.is_call(strip(src[2][0]), "iter_mut") and mir.is_call(strip(src[2][1]), "zip"):
                inner = strip(src[2][1])
                ops_ = sorted(show(strip(a_))[-17:] for a_ in inner[2])
                parts = sorted(show(strip(x_)) for x_ in (v_[2:4] if v_[0] == "bin" and v_[1] == "Add" else (v_[2] if mir.is_call(v_, "add") else [])))
                want = sorted([show(("field", ("field", item, "1", None), "0", None)), show(("field", ("field", item, "1", None), "1", None))])
                zipped = (parts == want and ops_ == ["arg1.coefficients", "arg2.coefficients"])
    if zipped is not None:
        if not zipped:
            errs.append("the zipped sum is not new[i] = self[i] + rhs[i]")
    elif len(stores) != 1:
        errs.append("%sexpected one coefficient write in the body of add, found %d" % ("?" if not stores else "", len(stores)))
    else:
        bb, pt, val, line = stores[0]
        idx = strip(pt[2])
        v = strip(val)
        ops = [strip(v[2]), strip(v[3])] if v[0] == "bin" and v[1] == "Add" else ([strip(x) for x in v[2]] if mir.is_call(v, "add") else [])
        ok = len(ops) == 2 and all(o[0] == "index" and strip(o[2]) == idx for o in ops) and \
            sorted(show(strip(o[1]))[-18:] for o in ops) == ["arg1.coefficients", "arg2.coefficients"]
        if not ok:
            errs.append("sum is not pointwise: new[i] := %s" % show(v)[:80])
    out.append(inst("LAW", "%s:add-pointwise" % PA, verdict_of(errs), add, None,
                    errtext(errs) if errs else "new[i] = self[i] + rhs[i]"))
    # result lengths: deg(a·b) = deg a + deg b, deg(a+b) <= max; both truncated at MAX_COEFFS coefficients
    def is_max_coeffs(t):
        t = strip(t)
        return (t[0] == "const" and t[2] == "32") or (t[0] == "constitem" and t[1].endswith("MAX_COEFFS"))

    def len_of(fn):
        for x in mir.subterms(fn.terms.ret):
            if x[0] == "agg" and x[2] == PA and "len" in x[5]:
                l = strip(x[4][x[5].index("len")])
                if l[0] != "const":
                    return l
        return None
    for fn, nm in ((mul, "mul"), (add, "add")):
        l = len_of(fn)
        errs = []
        if not (mir.is_call(l, "min") and len(l[2]) == 2 and any(is_max_coeffs(a) for a in l[2])):
            errs.append("result length %s is not clamped by exactly MAX_COEFFS (the number of coefficients the write guard "
                        "admits)" % (show(l)[:70] if l else "?"))
        else:
            inner = [strip(a) for a in l[2] if not is_max_coeffs(a)][0]
            lens = {"arg1.len", "arg2.len"}
            if nm == "mul":
                ok = mir.is_call(inner, "saturating_sub") and strip(inner[2][1])[2] == "1" and \
                    {show(strip(x)) for x in mir.subterms(inner[2][0]) if strip(x)[0] == "field"} >= lens and \
                    any(strip(x)[0] == "bin" and strip(x)[1].startswith("Add") for x in mir.subterms(inner[2][0]))
                if not ok:
                    errs.append("length of a product is %s, expected len1 + len2 − 1" % show(inner)[:60])
            else:
                ok = mir.is_call(inner, "max") and {show(strip(a)) for a in inner[2]} == lens
                if not ok:
                    errs.append("length of a sum is %s, expected max(len1, len2)" % show(inner)[:60])
        out.append(inst("LAW", "%s:%s-length" % (PA, nm), VIOLATION if errs else OK, fn, None,
                        "; ".join(errs) if errs else "len = min(%s, MAX_COEFFS)" % ("len1+len2−1" if nm == "mul" else "max(len1,len2)")))
    # annihilation: 0·p = p·0 = 0 as *values of the type* (equality is derived: coefficients and len).  The length
    # formula len1 + len2 − 1 gives len2 − 1 for len1 = 0, so a product is only the zero polynomial when each operand's
    # emptiness is answered before the formula is reached.
    te = mul.terms
    r = strip(te.ret)
    alts = [(pb, strip(v)) for pb, v in r[2]] if r[0] == "phi" else [(None, r)]
    errs = []

    def is_zero_poly(v):
        if mir.is_call(v, "zero") or (v[0] == "constitem" and "zero" in v[1].lower()):
            return True
        if v[0] == "agg" and v[2] == PA and "len" in v[5]:
            l = strip(v[4][v[5].index("len")])
            return l[0] == "const" and l[2] == "0"
        return False
    n_formula = 0
    for pb, v in alts:
        if is_zero_poly(v):
            continue
        if not (v[0] == "agg" and v[2] == PA and "len" in v[5]) or pb is None:
            errs.append("?a result of mul is neither zero() nor a Polynomial built in place: %s" % show(v)[:60])
            continue
        n_formula += 1
        l = v[4][v[5].index("len")]
        facts = te.facts_at(pb)
        for side in ("arg1.len", "arg2.len"):
            known = False
            for c, val, _, _ in facts:
                c = strip(c)
                # a switch on the length itself (`match self.len { 0 => .., _ => .. }`, a tuple pattern `(0, _)`)
                if show(c) == side and isinstance(val, tuple) and val[0] == "not" and "0" in val[1]:
                    known = True
                if show(c) == side and isinstance(val, str) and val.isdigit() and int(val) > 0:
                    known = True
                if c[0] == "bin" and c[1] in ("Eq", "Ne", "Gt", "Lt", "Ge", "Le"):
                    a_, b_ = show(strip(c[2])), show(strip(c[3]))
                    true_ = (val == "1") or (isinstance(val, tuple) and val[0] == "not" and "0" in val[1])
                    false_ = (val == "0") or (isinstance(val, tuple) and val[0] == "not" and "1" in val[1])
                    if (a_, b_) == (side, "0") and ((c[1] == "Eq" and false_) or (c[1] in ("Ne", "Gt") and true_) or (c[1] == "Le" and false_)):
                        known = True
                    if (a_, b_) == ("0", side) and ((c[1] == "Eq" and false_) or (c[1] in ("Ne", "Lt") and true_) or (c[1] == "Ge" and false_)):
                        known = True
                    if (a_, b_) == (side, "1") and ((c[1] == "Ge" and true_) or (c[1] == "Lt" and false_)):
                        known = True
            if known:
                continue
            guarded = any(strip(x)[0] == "gamma" and side in show(strip(x)[1]) for x in mir.subterms(l))
            if guarded:
                errs.append("?the length of the product chooses on %s inside the formula" % side)
            else:
                errs.append("the product %s is returned also when %s is 0 (the zero polynomial): its length is then the other "
                            "operand's length − 1, not 0, so 0·p is not the zero of the type (equality and the reported "
                            "length include len) — annihilation fails" % (show(v)[:50], side.replace("arg1", "self").replace("arg2", "rhs")))
    if not n_formula and not errs:
        errs.append("?no product built in place found in mul")
    out.append(inst("LAW", "%s:mul-annihilator" % PA, verdict_of(errs), mul, None,
                    errtext(errs) if errs else "the length formula is reached only with both operands non-empty; otherwise zero()"))
    one = prog.find1(name="one", self_adt=PA, impl_trait=TRAIT + "Semiring", unit="rsdd-lib")
    te = one.terms
    errs = []
    st = [s for s in te.stores if s[1][0] == "index"]
    r = strip(te.ret)
    if not (len(st) == 1 and strip(st[0][1][2])[0] == "const" and strip(st[0][1][2])[2] == "0" and mir.is_call(strip(st[0][2]), "one")
            and strip(st[0][1][1])[0] == "repeat" and mir.is_call(strip(strip(st[0][1][1])[1]), "zero")):
        errs.append("one is not [C::zero(); N] with coefficient 0 set to C::one()")
    ln = strip(r[4][r[5].index("len")]) if r[0] == "agg" and "len" in r[5] else None
    if not (ln and ln[0] == "const" and ln[2] == "1"):
        errs.append("len of one is %s" % (show(ln) if ln else "?"))
    out.append(inst("LAW", "%s:one" % PA, VIOLATION if errs else OK, one, None, "; ".join(errs) if errs else "one = [C::one, 0, …], len 1"))
    zero = prog.find1(name="zero", self_adt=PA, impl_trait=TRAIT + "Semiring", unit="rsdd-lib")
    r = strip(zero.terms.ret)
    errs = []
    co = strip(r[4][r[5].index("coefficients")]) if r[0] == "agg" and "coefficients" in r[5] else None
    if not (co and co[0] == "repeat" and mir.is_call(strip(co[1]), "zero")):
        errs.append("coefficients are not [C::zero(); MAX_COEFFS]: %s" % (show(co) if co else "?"))
    ln = strip(r[4][r[5].index("len")]) if r[0] == "agg" and "len" in r[5] else None
    if not (ln and ln[0] == "const" and ln[2] == "0"):
        errs.append("len of zero is %s" % (show(ln) if ln else "?"))
    out.append(inst("LAW", "%s:zero" % PA, VIOLATION if errs else OK, zero, None, "; ".join(errs) if errs else "zero = [0, …], len 0"))
    return out


# ------------------------------------------------------------------ lattice operations over orderings
def cmp_eval(t, rel, fields):
    """evaluate a term built from comparisons / max / min / component selection under a fixed ordering
    rel[f] ∈ {-1,0,1} = sign(a.f - b.f); returns: ('side', 'a'|'b'|'eq') for component values, bool for tests,
    or a tuple of component sides for struct results"""
    t = strip(t)
    if t[0] == "param":
        return "a" if t[1] == 1 else "b"
    if t[0] == "field" and strip(t[1])[0] == "param":
        return ("c", "a" if strip(t[1])[1] == 1 else "b", t[2])
    if t[0] == "bin" and t[1] in ("Lt", "Le", "Gt", "Ge", "Eq", "Ne"):
        x, y = cmp_eval(t[2], rel, fields), cmp_eval(t[3], rel, fields)
        if not (isinstance(x, tuple) and isinstance(y, tuple) and x[0] == "c" and y[0] == "c" and x[2] == y[2] and x[1] != y[1]):
            raise NotPoly("comparison of unrelated components")
        s = rel[x[2]] if x[1] == "a" else -rel[x[2]]
        return {"Lt": s < 0, "Le": s <= 0, "Gt": s > 0, "Ge": s >= 0, "Eq": s == 0, "Ne": s != 0}[t[1]]
    if t[0] == "gamma":
        ba = bool_arms(t)
        if ba:
            return cmp_eval(ba[2], rel, fields) if cmp_eval(ba[0], rel, fields) else cmp_eval(ba[1], rel, fields)
    if t[0] == "call" and t[1].name in ("max", "min") and len(t[2]) == 2:
        x, y = cmp_eval(t[2][0], rel, fields), cmp_eval(t[2][1], rel, fields)
        if not (x[0] == "c" and y[0] == "c" and x[2] == y[2] and x[1] != y[1]):
            raise NotPoly("max/min of unrelated components")
        s = rel[x[2]] if x[1] == "a" else -rel[x[2]]
        if s == 0:
            return ("c", "eq", x[2])
        bigger = x if s > 0 else y
        smaller = y if s > 0 else x
        return bigger if t[1].name == "max" else smaller
    if t[0] == "agg" and t[1] == "adt":
        return tuple(cmp_eval(o, rel, fields) for o in t[4])
    raise NotPoly("term %s" % show(t)[:60])


def lattice_laws(prog):
    """join / meet / choose against the order the type declares.  Both are *evaluated*, not matched: for each ordering
    of the operands' components the path evaluator (rules/pe.py) runs partial_cmp and the operation."""
    from .pe import PathEval, NotEval
    out = []
    for adt in (SR + "expectation::ExpectedUtility", SR + "realsemiring::RealSemiring"):
        a = prog.adts[adt]
        fields = [f["name"] for f in a["variants"][0]["fields"]]
        ops = {}
        for tr, nm in ((TRAIT + "JoinSemilattice", "join"), (TRAIT + "MeetSemilattice", "meet"), (TRAIT + "BBSemiring", "choose")):
            fs = prog.find(name=nm, self_adt=adt, impl_trait=tr, unit="rsdd-lib")
            if fs:
                ops[nm] = fs[0]
        pcs = [f for f in prog.find(name="partial_cmp", self_adt=adt, unit="rsdd-lib")]
        order_note = []

        def related_of(signs):
            """'a' (a > b), 'b' (a < b), 'eq', or None when the declared order does not relate the operands"""
            if len(pcs) == 1:
                try:
                    v = PathEval(prog, pcs[0], dict(zip(fields, signs)), fields, adt=adt).run()
                    if v == ("none",):
                        return None
                    if v[0] == "some" and v[1][0] == "ord":
                        return {-1: "b", 0: "eq", 1: "a"}[v[1][1]]
                    raise NotEval("partial_cmp returns %r" % (v,))
                except NotEval as e:
                    if not order_note:
                        order_note.append("partial_cmp not evaluated (%s); the componentwise order is assumed" % e)
            if all(s < 0 for s in signs):
                return "b"
            if all(s > 0 for s in signs):
                return "a"
            if all(s == 0 for s in signs):
                return "eq"
            return None

        for nm, fn in ops.items():
            key = "%s:%s" % (adt, nm)
            errs = []
            try:
                for signs in itertools.product([-1, 0, 1], repeat=len(fields)):
                    rel = dict(zip(fields, signs))
                    res = PathEval(prog, fn, rel, fields, adt=adt).run()
                    if not (isinstance(res, tuple) and res[0] == "rec" and len(res[1]) == len(fields) and
                            all(isinstance(r, tuple) and r[0] == "c" for r in res[1])):
                        raise NotEval("%s returns %r" % (nm, res))
                    comps = res[1]
                    related = related_of(signs)
                    if related in ("a", "b"):
                        want = related if nm in ("join", "choose") else {"a": "b", "b": "a"}[related]
                        for f, r in zip(fields, comps):
                            if r[2] != f:
                                errs.append("%s takes component `%s` from `%s`" % (nm, f, r[2]))
                            elif r[1] not in (want, "eq") and rel[f] != 0:
                                errs.append("for a %s b in the declared order (components %s) %s returns component `%s` of %s, "
                                            "expected of %s" % ({"a": ">", "b": "<"}[related],
                                                                ", ".join("%s:%s" % (g, "<=>"[rel[g] + 1]) for g in fields),
                                                                nm, f, r[1], want))
                    if nm in ("join", "meet"):
                        rel2 = {f: -s for f, s in rel.items()}
                        res2 = PathEval(prog, fn, rel2, fields, adt=adt).run()
                        for f, r1, r2 in zip(fields, comps, res2[1]):
                            s2 = {"a": "b", "b": "a", "eq": "eq"}[r2[1]]
                            if r1[1] != s2 and rel[f] != 0:
                                errs.append("%s is not commutative in component `%s`" % (nm, f))
                            if r1[2] != f:
                                errs.append("%s takes component `%s` from `%s`" % (nm, f, r1[2]))
            except NotEval as e:
                out.append(inst("LAW", key, UNDECIDED, fn, None, str(e)))
                continue
            out.append(inst("LAW", key, VIOLATION if errs else OK, fn, None,
                            "; ".join(sorted(set(errs))[:3]) if errs else
                            "%s returns the %s whenever the declared order relates the operands%s%s" % (
                                nm, "larger" if nm != "meet" else "smaller",
                                "; commutative, componentwise" if nm != "choose" else "",
                                (" [" + order_note[0] + "]") if order_note else "")))
    return out


def equality_laws(prog):
    """The laws are equations, and the equality they are stated in is the `PartialEq` of the weight type.  For the
    float-backed types it has to be value equality of the components (what `#[derive(PartialEq)]` gives): the arithmetic
    produces −0.0 for (negative)·0 and 0.0 for x + (−x), and only value equality identifies them with `zero()`.  An
    equality by total order or by bit pattern (`total_cmp`, `to_bits`) separates them, and with it `x * zero == zero`
    and distributivity fail for negative x although every operation is unchanged."""
    from . import canon
    out = []
    for adt in (SR + "realsemiring::RealSemiring", SR + "complex::Complex", SR + "expectation::ExpectedUtility"):
        eqs = [f for f in prog.lib_fns if f.name == "eq" and f.impl_self == adt and (f.impl_trait or "").endswith("PartialEq")]
        key = "%s:eq-is-value-equality" % adt
        if len(eqs) != 1:
            out.append(inst("LAW", key, UNDECIDED, None, None, "PartialEq::eq of %s not found" % adt.split("::")[-1]))
            continue
        f = eqs[0]
        names = []
        for g in canon.local_bodies(prog, f, ok=lambda h: True, depth=3):
            names += [c.callee.name for c in g.terms.calls]
        bitwise = [n_ for n_ in names if n_ in ("total_cmp", "to_bits", "to_ne_bytes", "to_le_bytes", "to_be_bytes")]
        r = strip(f.terms.ret)
        comps = [x for x in mir.subterms(r) if strip(x)[0] == "bin" and strip(x)[1] in ("Eq", "Ne")]
        if bitwise:
            out.append(inst("LAW", key, VIOLATION, f, None,
                            "equality of %s goes through `%s`: it separates −0.0 from 0.0 (and is reflexive on NaN), but the "
                            "arithmetic yields −0.0 for a negative value times zero — `x * zero == zero` and distributivity then "
                            "fail for negative x, with every operation unchanged" % (adt.split("::")[-1], bitwise[0])))
        elif [x for g in canon.local_bodies(prog, f, ok=lambda h: True, depth=3) if g.terms.ret is not None
              for x in [strip(g.terms.ret)] + list(mir.subterms(g.terms.ret))
              if (strip(x)[0] == "bin" and strip(x)[1] in ("Lt", "Le", "Gt", "Ge")) or mir.is_call(strip(x), "abs")]:
            out.append(inst("LAW", key, VIOLATION, f, None,
                            "equality of %s is decided by an inequality on the components (a tolerance): that relation is not "
                            "transitive and identifies different values, so it is not the equality the laws are stated in — and the "
                            "branch-and-bound searches use `==` to tell which operand `choose` returned and `<=` to prune: values "
                            "closer than the tolerance are then treated as one" % adt.split("::")[-1]))
        elif comps and not [n_ for n_ in names if n_ not in ("eq", "ne")]:
            out.append(inst("LAW", key, OK, f, None, "componentwise `==` (value equality)"))
        else:
            out.append(inst("LAW", key, UNDECIDED, f, None, "eq is %s" % show(r)[:60]))
    return out


def run(prog):
    out = []
    out += numeric_laws(prog, SR + "realsemiring::RealSemiring")
    out += numeric_laws(prog, SR + "complex::Complex")
    out += numeric_laws(prog, SR + "expectation::ExpectedUtility")
    out += numeric_laws(prog, SR + "rational::RationalSemiring")
    out += boolean_laws(prog)
    out += field_laws(prog)
    from . import mm
    out += mm.run(prog)
    out += polynomial_laws(prog)
    out += lattice_laws(prog)
    out += equality_laws(prog)
    if len([r for r in out if r["verdict"] in ("ok", "violation")]) < 40:
        raise CheckerError("LAW: only %d laws decided" % len(out))
    return out
