"""HS — the residual-formula hash: what each literal of a still-unsatisfied clause contributes.

CnfHasher::hash walks the clauses the decisions have not yet removed and, per clause, its literals.
The four outcomes are checked as control-flow obligations on the loop nest:

  (a) a literal true in the model: the whole clause is skipped — control returns to the *outer* loop
      header without executing anything that can change the accumulator (no call, no store);
  (b) a literal false in the model: this literal is skipped — control returns to the *inner* loop
      header without any call or store (its prime is not multiplied in);
  (c) an unassigned literal: its prime is multiplied into the clause product before the next literal;
  (d) after the last literal the clause product is multiplied into the accumulator before the next clause.

(a) and (b) are must-not-pass-through rules, (c) and (d) must-pass-through rules, on the CFG of the
function as compiled; no execution is involved.
"""
from . import mir
from .base import verdict_of, errtext, inst, OK, VIOLATION, UNDECIDED, strip
from .facts import CheckerError
from .mir import show

MULS = ("wrapping_mul", "mul", "checked_mul", "mul_assign", "mul_mod")


def run(prog):
    fn = prog.find1(name="hash", self_adt="repr::cnf::CnfHasher", unit="rsdd-lib")
    te, cfg = fn.terms, fn.cfg
    out = []
    if not any(c.callee.name == "lit_implied" for c in te.calls):
        # the per-clause scan may have been extracted into a helper of the hasher
        return helper_form(prog, fn) + [one_numbering(prog)] + occurrence_index(prog)

    def site(name):
        cs = [c for c in te.calls if c.callee.name == name and "PartialModel" in c.callee.key()]
        if len(cs) != 1:
            raise CheckerError("HS: expected one %s call in CnfHasher::hash, found %d" % (name, len(cs)))
        t = fn.blocks[cs[0].bb]["term"]
        nxt = t.get("target")
        sw = fn.blocks[nxt]["term"] if nxt is not None else None
        if not sw or sw["k"] != "switch" or strip(te.switch_term[nxt][0]) != strip(("call", cs[0].callee, tuple(cs[0].args))) \
                and not mir.is_call(strip(te.switch_term[nxt][0]), name):
            return cs[0], None, None
        false_t = [tg for v, tg in sw["targets"] if v == "0"]
        true_t = sw["otherwise"] if false_t else None
        return cs[0], true_t, (false_t[0] if false_t else None)

    imp, imp_true, imp_false = site("lit_implied")
    neg, neg_true, neg_false = site("lit_neg_implied")
    loops = sorted([h for h, body in cfg.loop_headers.items() if imp.bb in body], key=lambda h: len(cfg.loop_headers[h]))
    if len(loops) < 2:
        raise CheckerError("HS: lit_implied is not inside a two-level loop nest")
    h_in, h_out = loops[0], loops[-1]

    def effects(blocks):
        calls = [c for c in te.calls if c.bb in blocks]
        stores = [s for s in te.stores if s[0] in blocks]
        assigns = []
        for b in blocks:
            for st in fn.blocks[b]["stmts"]:
                if st["k"] == "assign" and not st["lhs"]["proj"] and fn.local_name(st["lhs"]["l"]):
                    assigns.append((b, fn.local_name(st["lhs"]["l"])))
        return calls, stores, assigns

    def skip_rule(key, start, header, what, consequence):
        if start is None:
            out.append(inst("HS", key, UNDECIDED, fn, None, "branch on %s not recognised" % what))
            return
        reach = cfg.reachable_from(start, avoid={header})
        calls, stores, assigns = effects(reach)
        back = any(header in cfg.succ[b] for b in reach)
        errs = []
        if not back:
            errs.append("control does not return to the loop header")
        if calls or stores:
            errs.append("before the next iteration it still executes %s"
                        % ", ".join(["%s (line %d)" % (c.callee.name, c.line) for c in calls[:3]] +
                                    ["a store at line %d" % s[3] for s in stores[:2]]))
        if errs and assigns and not (calls or stores):
            out.append(inst("HS", key, UNDECIDED, fn, None, "flag-driven control flow: %s" % assigns[:3]))
            return
        out.append(inst("HS", key, VIOLATION if errs else OK, fn, None,
                        ("%s: %s — %s" % (what, "; ".join(errs), consequence)) if errs else
                        "%s: straight back to the loop header, nothing executed" % what))

    skip_rule("%s:satisfied-clause-skipped" % fn.npath, imp_true, h_out, "a literal that is true in the model",
              "a satisfied clause must contribute nothing to the hash (two assignments with the same residual formula "
              "would hash differently)")
    skip_rule("%s:false-literal-skipped" % fn.npath, neg_true, h_in, "a literal that is false in the model",
              "a falsified literal is not part of the residual clause")
    # (c)
    errs = []
    if neg_false is None:
        errs.append("?unassigned-literal branch not recognised")
    else:
        reach = cfg.reachable_from(neg_false, avoid={h_in})
        muls = [c for c in te.calls if c.bb in reach and c.callee.name in MULS]
        if not muls:
            errs.append("an unassigned literal's prime is not multiplied into the clause product")
        elif not any(any(x[0] == "mu" for x in mir.subterms(a)) for c in muls for a in c.args):
            errs.append("the product at line %d does not accumulate (no loop-carried operand)" % muls[0].line)
    out.append(inst("HS", "%s:unassigned-literal-multiplied" % fn.npath, verdict_of(errs), fn, None,
                    errtext(errs) if errs else "clause product *= prime of each unassigned literal"))
    # (d)
    errs = []
    sw = fn.blocks[h_in]["term"]
    nxt = sw.get("target")
    exit_t = None
    if nxt is not None and fn.blocks[nxt]["term"]["k"] == "switch":
        for v, tg in fn.blocks[nxt]["term"]["targets"]:
            if tg not in cfg.loop_headers[h_in]:
                exit_t = tg
    if exit_t is None:
        errs.append("?exit of the literal loop not recognised")
    else:
        reach = cfg.reachable_from(exit_t, avoid={h_out})
        muls = [c for c in te.calls if c.bb in reach and c.callee.name in MULS]
        stores = [s for s in te.stores if s[0] in reach]
        if not muls or not stores:
            errs.append("after the last literal the clause product is not multiplied into the accumulator")
        elif not any(any(x[0] == "mu" and x[1] == h_in for x in mir.subterms(a)) for c in muls for a in c.args):
            errs.append("the accumulator update at line %d does not use the clause product" % muls[0].line)
    out.append(inst("HS", "%s:clause-product-accumulated" % fn.npath, verdict_of(errs), fn, None,
                    errtext(errs) if errs else "accumulator[i] *= clause product, for every clause that reaches the end of its literal loop"))
    out.append(one_numbering(prog))
    out += occurrence_index(prog)
    out += own_hasher(prog)
    return out


def own_hasher(prog):
    """HS6: a formula and its hasher belong together.  The hasher's occurrence tables, clause numbering, primes and its
    "skip unit clauses" decision are functions of the clause list it was built from; every `Cnf { .. }` literal therefore
    pairs `clauses: C` with `hasher: CnfHasher::new(&C, n)` for the same C (a field-wise copy of another Cnf is fine).  A
    hasher carried over from a related formula and patched up answers for the other formula's clause shapes."""
    out = []
    n = 0
    for fn in prog.lib_fns:
        if "::test" in fn.npath or fn.name.startswith("test"):
            continue
        try:
            te = fn.terms
        except Exception:
            continue
        for bb, t, line in te.aggs:
            if not (t[1] == "adt" and t[2] == "repr::cnf::Cnf" and "hasher" in t[5] and "clauses" in t[5]):
                continue
            n += 1
            cl, hs_ = strip(t[4][t[5].index("clauses")]), strip(t[4][t[5].index("hasher")])
            key = "%s:HS6:own-hasher" % fn.npath
            def src_of(x):
                x = strip(x)
                while mir.is_call(x, "clone") and x[2]:
                    x = strip(x[2][0])
                return x
            a, b = src_of(cl), src_of(hs_)
            if a[0] == "field" and b[0] == "field" and a[2] == "clauses" and b[2] == "hasher" and strip(a[1]) == strip(b[1]):
                out.append(inst("HS", key, OK, fn, line, "field-wise copy of one formula"))
            elif mir.is_call(hs_, "new") and "CnfHasher" in hs_[1].key() and hs_[2]:
                arg = src_of(hs_[2][0])
                same = arg == src_of(cl) or show(arg) == show(src_of(cl))
                out.append(inst("HS", key, OK if same else VIOLATION, fn, line,
                                "hasher = CnfHasher::new(the stored clauses, ..)" if same else
                                "the hasher is built from %s but the formula stores %s: hashes of partial assignments describe another "
                                "clause list" % (show(arg)[:40], show(cl)[:40])))
            elif any(x[0] == "param" or (x[0] == "field" and x[2] == "hasher") for x in mir.subterms(hs_)):
                out.append(inst("HS", key, VIOLATION, fn, line,
                                "the new formula's hasher is derived from another formula's hasher (%s) instead of being built from "
                                "the clauses it is stored with: what the hasher decided from the other formula's clause shapes (clause "
                                "numbering, which clauses are units and skipped, the primes) no longer matches, so partial assignments "
                                "with the same residual formula hash differently" % show(hs_)[:60]))
            else:
                out.append(inst("HS", key, UNDECIDED, fn, line, "hasher field is %s" % show(hs_)[:60]))
    if n < 2:
        out.append(inst("HS", "repr::cnf::Cnf:HS6:own-hasher", UNDECIDED, None, None, "expected >= 2 Cnf literals (new, clone), found %d" % n))
    return out


def one_numbering(prog):
    """HS5  one clause numbering.  CnfHasher keeps clause *indices* in three places — the per-state set of unsatisfied
    clauses, the per-literal occurrence tables pos_lits / neg_lits — and uses them to index weighted_cnf.  All four
    must number the same list: every `enumerate` in CnfHasher::new (and its closures) runs directly over the
    constructor's `clauses` argument, and weighted_cnf maps that same list element by element.  An adaptor between
    the list and `enumerate` (filter, skip, rev, ...) shifts one table against the others."""
    fn = prog.find1(name="new", self_adt="repr::cnf::CnfHasher", unit="rsdd-lib")
    fam = [fn] + [g for g in prog.lib_fns if g.npath.startswith(fn.npath + "::{closure")]
    errs = []
    n = 0

    def is_base(t):
        t = strip(t)
        while mir.is_call(t, "iter") or mir.is_call(t, "into_iter") or mir.is_call(t, "deref"):
            t = strip(t[2][0])
        return t == ("param", 1) or (isinstance(t, tuple) and t[0] == "upvar" and t[1] == "clauses")
    for g in fam:
        for cs in g.terms.calls:
            if cs.callee.name == "enumerate":
                n += 1
                if not is_base(cs.args[0]):
                    errs.append("line %d: clause indices are taken from enumerate(%s), not from the clause list itself: they "
                                "number a different list than the indices in `state` and the positions of weighted_cnf"
                                % (cs.line, show(cs.args[0])[:60]))
    r = strip(fn.terms.ret)
    if r[0] == "agg" and r[4]:
        w = strip(r[4][0])
        if not (mir.is_call(w, "collect") and mir.is_call(strip(w[2][0]), "map") and is_base(strip(w[2][0])[2][0])):
            errs.append("weighted_cnf is built from %s, not element by element from the clause list" % show(w)[:70])
    if n < 1:
        raise CheckerError("HS5: expected enumerations of the clause list in CnfHasher::new, found %d" % n)
    return inst("HS", "%s:one-clause-numbering" % fn.npath, VIOLATION if errs else OK, fn, None,
                "; ".join(errs) if errs else "state, pos_lits, neg_lits and weighted_cnf all number the constructor's clause list (%d enumerations)" % n)



def occurrence_index(prog):
    """HS7  the occurrence index of the hasher (pos_lits / neg_lits: literal -> clauses containing it) is either complete, or
    used for nothing but striking clauses out of the unsatisfied-set.  Producer side: every place of CnfHasher::new that
    records a clause index in a row (a `push` onto a row of the two tables, or the `Some(idx)` of a filter_map that builds a
    row) is looked at with the branch facts that dominate it; tests that belong to the indexing itself — the loops, the
    membership test `clause.contains(Literal::new(v, pol))`, the polarity that selects the table, the range test of
    `get_mut`, a duplicate test against `last()` — are expected, any other test *excludes* clauses from the index.
    Consumer side: a function of the crate that reads the tables and does something other than removing the listed
    clauses from `state` (hands the row out, counts, inserts elsewhere) relies on the index being complete.  Each side alone
    is fine (today the index is complete and `decide` only strikes out); an exclusion together with such a reader is
    reported at the reader."""
    H = "repr::cnf::CnfHasher"
    fn = prog.find1(name="new", self_adt=H, unit="rsdd-lib")
    fam = [fn] + [g for g in prog.lib_fns if g.npath.startswith(fn.npath + "::{closure")]
    r = strip(fn.terms.ret)
    out = []
    if not (r[0] == "agg" and len(r) > 5 and r[5] and "pos_lits" in r[5] and "neg_lits" in r[5]):
        return [inst("HS", "%s:HS7:index-complete" % fn.npath, UNDECIDED, fn, None, "? CnfHasher literal with pos_lits / neg_lits not found")]
    fields = {n_: strip(o) for n_, o in zip(r[5], r[4]) if n_ in ("pos_lits", "neg_lits")}
    tab_locals = {t[2] if t[0] == "mu" else t[1] for t in fields.values() if t[0] in ("mu", "local", "mutref")}
    # closures that build the rows of the two tables (chain form)
    row_closures = set()

    def collect(t, depth=0):
        if depth > 6:
            return
        for x in [strip(t)] + list(mir.subterms(t)):
            if isinstance(x, tuple) and x and x[0] == "agg" and x[1] == "closure":
                if x[2] not in row_closures:
                    row_closures.add(x[2])
                    for g in fam:
                        if g.npath == x[2] and g.terms.ret is not None:
                            collect(g.terms.ret, depth + 1)
    for t in fields.values():
        if t[0] not in ("mu", "local", "mutref"):
            collect(t)
    sites = []                                   # (fn, block, line, what)
    for g in fam:
        te = g.terms
        for cs in te.calls:
            if cs.callee.name == "push" and len(cs.args) == 2 and any(
                    isinstance(x, tuple) and len(x) == 2 and x[0] in ("mutref", "local") and x[1] in tab_locals
                    for x in [strip(cs.args[0])] + list(mir.subterms(cs.args[0]))) and g is fn:
                # `tab.push(Vec::new())` sizes the table; an index is recorded by a push onto a *row*
                if any(mir.is_call(x, "index_mut") or mir.is_call(x, "get_mut") or mir.is_call(x, "last_mut") or
                       mir.is_call(x, "iter_mut") for x in mir.subterms(cs.args[0])):
                    sites.append((g, cs.bb, cs.line, "push"))
        if g.npath in row_closures and any(c.callee.name == "enumerate" for h in fam for c in h.terms.calls
                                           if any(isinstance(a, tuple) and a and a[0] == "agg" and a[1] == "closure" and a[2] == g.npath
                                                  for c2 in h.terms.calls if c2.callee.name == "filter_map" for a in c2.args)):
            def some_sites(t, blk, extra, depth=0):
                t = strip(t)
                if depth > 8 or not isinstance(t, tuple) or not t:
                    return
                if t[0] == "phi":
                    for pb, v in t[2]:
                        pbn = int(str(pb).replace("bb", "")) if not isinstance(pb, int) else pb
                        some_sites(v, pbn, extra, depth + 1)
                elif t[0] == "gamma":
                    for lab, v in t[2]:
                        some_sites(v, blk, extra + [(t[1], lab)], depth + 1)
                elif t[0] == "agg" and t[3] == "Some":
                    sites.append((g, blk, None, "Some(idx)", extra))
            for b, t in te.ret_by_block.items():
                some_sites(t, b, [])
    if not sites:
        return [inst("HS", "%s:HS7:index-complete" % fn.npath, UNDECIDED, fn, None,
                     "? no place that records a clause index in pos_lits / neg_lits was found")]

    def expected(c):
        c0 = strip(c)
        while isinstance(c0, tuple) and c0 and c0[0] == "un" and c0[1] == "Not":
            c0 = strip(c0[2])
        sc = show(c0)
        subs = [c0] + list(mir.subterms(c0))
        if c0[0] == "discr" and any(mir.is_call(x, nm) for x in subs for nm in ("next", "get_mut", "get", "last")):
            return True
        if any(mir.is_call(x, "contains") for x in subs) and "Literal" in "".join(getattr(x[1], "key", lambda: "")() or "" for x in subs if x[0] == "call") + sc:
            return True
        if any(mir.is_call(x, "polarity") for x in subs):
            return True
        if any(mir.is_call(x, "last") for x in subs):
            return True
        if any(mir.is_call(x, "label") for x in subs) and c0[0] in ("bin", "call"):
            return True
        return False
    excl = []
    for site in sites:
        g, b, line, what = site[:4]
        extra = site[4] if len(site) > 4 else []
        for c in [c_ for c_, v, _, _ in g.terms.facts_at(b)] + [c_ for c_, _ in extra]:
            if not expected(c):
                excl.append((show(strip(c))[:70], g, line))
    texts = sorted({e[0] for e in excl})
    out.append(inst("HS", "%s:HS7:index-complete" % fn.npath, OK, fn, None,
                    ("%d recording sites; the index leaves clauses out on: %s — admissible only while every reader merely strikes "
                     "listed clauses out of `state`" % (len(sites), "; ".join(texts))) if texts else
                    "%d recording sites, each guarded only by the membership / polarity / range / duplicate tests of the indexing "
                    "itself: every occurrence is recorded" % len(sites)))
    # readers
    nread = 0
    for g in prog.lib_fns:
        if g in fam or "::test" in g.npath or g.name.startswith("test") or not any(b_["term"]["k"] == "call" for b_ in g.blocks):
            continue
        if (g.impl_trait or "").split("<")[0].split("::")[-1] in ("PartialEq", "Eq", "Debug", "Clone", "Hash", "Serialize", "Deserialize", "Default"):
            continue        # structural impls treat the tables as data
        te = g.terms
        reads = [cs for cs in te.calls if any(isinstance(x, tuple) and x and x[0] == "field" and x[2] in ("pos_lits", "neg_lits") and
                                              str(x[3] if len(x) > 3 else "").endswith("CnfHasher")
                                              for a in cs.args for x in [strip(a)] + list(mir.subterms(a)))]
        if not reads:
            continue
        nread += 1
        strikes = any(cs.callee.name == "remove" and any(isinstance(x, tuple) and x and x[0] == "field" and x[2] == "state"
                                                         for x in mir.subterms(cs.args[0])) for cs in te.calls)
        other = [cs.callee.name for cs in te.calls if cs.callee.name in ("insert", "push", "extend", "contains", "len", "count", "as_slice", "to_vec", "collect")]
        unit = (g.locals[0]["s"] if g.locals else "") in ("()",)
        only_strikes = strikes and unit and not other
        key = "%s:HS7:index-use" % g.npath
        if only_strikes or not texts:
            out.append(inst("HS", key, OK, g, reads[0].line,
                            "strikes the listed clauses out of `state` and nothing else" if only_strikes else
                            "reads the occurrence index, which is complete"))
        else:
            out.append(inst("HS", key, VIOLATION, g, reads[0].line,
                            "%s uses the occurrence index as *the* clauses in which a literal occurs (%s), but CnfHasher::new leaves "
                            "clauses out of it on `%s`: whatever is computed from the rows misses those clauses"
                            % (g.name, "returns / collects the row" if not strikes else "does more than striking out", "; ".join(texts))))
    if nread == 0:
        out.append(inst("HS", "%s:HS7:index-use" % H, UNDECIDED, None, None, "? no reader of pos_lits / neg_lits found"))
    return out


def _hash_side(hashfn, g):
    """in `hash`: the helper is called inside the clause loop, None leads to the next clause with no multiplication or
    store, Some(p) is multiplied into the accumulator"""
    errs = []
    hte, hcfg = hashfn.terms, hashfn.cfg
    calls = [c for c in hte.calls if c.callee.name == g.name]
    hloops = sorted([h for h, body in hcfg.loop_headers.items() if calls and calls[0].bb in body], key=lambda h: -len(hcfg.loop_headers[h]))
    if not calls or not hloops:
        errs.append("?hash does not call the helper inside its clause loop")
        return errs
    h_out = hloops[0]
    nxt = hashfn.blocks[calls[0].bb]["term"].get("target")
    sw = hashfn.blocks[nxt]["term"] if nxt is not None else None
    if not sw or sw["k"] != "switch":
        errs.append("?hash does not branch on the helper's Option")
        return errs
    tg = {v: t for v, t in sw["targets"]}
    none_t = tg.get("0")
    some_t = tg.get("1", sw["otherwise"])
    if none_t is not None:
        r0 = hcfg.reachable_from(none_t, avoid={h_out})
        bad = [c for c in hte.calls if c.bb in r0 and c.callee.name in MULS] + [s_ for s_ in hte.stores if s_[0] in r0]
        if bad:
            errs.append("for a satisfied clause (None) hash still updates the accumulator")
    r1 = hcfg.reachable_from(some_t, avoid={h_out})
    m1 = [c for c in hte.calls if c.bb in r1 and c.callee.name in MULS]
    if not m1 or not any(g.name in show(a) for c in m1 for a in c.args):
        errs.append("the product returned by the helper is not multiplied into the accumulator")
    return errs


def _try_fold_form(prog, hashfn, names):
    """the per-literal scan as `clause.iter().try_fold(1, |product, (weight, lit)| ..)` in a helper of the hasher: the
    step function is evaluated for the three statuses of a literal — true: None; false: Some(product) unchanged;
    unassigned: Some(product * weight) — and the fold starts from 1"""
    from .base import verdict_of, errtext
    key = hashfn.npath
    found = []
    for h in prog.lib_fns:
        if h.impl_self != "repr::cnf::CnfHasher" or h is hashfn or "{closure" in h.npath:
            continue
        for cs in h.terms.calls:
            if cs.callee.name != "try_fold" or len(cs.args) != 3:
                continue
            clo = strip(cs.args[2])
            if not (isinstance(clo, tuple) and clo and clo[0] == "agg" and clo[1] == "closure"):
                continue
            ks = [k for k in prog.lib_fns if k.npath == clo[2]]
            if ks and any(c.callee.name == "lit_implied" for c in ks[0].terms.calls):
                found.append((h, cs, ks[0]))
    if len(found) != 1 or not any(c.callee.name == found[0][0].name for c in hashfn.terms.calls):
        return None
    h, cs, k = found[0]

    def ev(t, ti, tn, depth=0):
        t0 = strip(t)
        if depth > 12 or not isinstance(t0, tuple) or not t0:
            return t0
        if t0[0] == "gamma":
            c = strip(t0[1])
            inv = False
            while c[0] == "un" and c[1] == "Not":
                c, inv = strip(c[2]), not inv
            b = None
            if mir.is_call(c, "lit_implied"):
                b = ti
            elif mir.is_call(c, "lit_neg_implied"):
                b = tn
            if b is None:
                return t0
            b = b != inv
            for lab, v in t0[2]:
                if isinstance(lab, str) and lab in ("0", "1") and (lab == "1") == b:
                    return ev(v, ti, tn, depth + 1)
            for lab, v in t0[2]:
                if isinstance(lab, tuple) and lab[0] == "not" and (("0" in lab[1]) == b):
                    return ev(v, ti, tn, depth + 1)
        return t0
    r = k.terms.ret
    acc = ("param", 2)
    out = []
    v_true, v_false, v_open = ev(r, True, False), ev(r, False, True), ev(r, False, False)
    e = [] if (v_true[0] == "agg" and v_true[3] == "None") else ["a literal that is true in the model does not end the fold with None (clause satisfied): %s" % show(v_true)[:60]]
    out.append(inst("HS", "%s:%s" % (key, names[0]), VIOLATION if e else OK, k, None, "; ".join(e) or "true literal: the fold stops with None"))
    ok_b = v_false[0] == "agg" and v_false[3] == "Some" and strip(v_false[4][0]) == acc
    e = [] if ok_b else ["a literal that is false in the model does not pass the product on unchanged: %s" % show(v_false)[:60]]
    out.append(inst("HS", "%s:%s" % (key, names[1]), VIOLATION if e else OK, k, None, "; ".join(e) or "false literal: Some(product) unchanged"))
    ok_c = False
    if v_open[0] == "agg" and v_open[3] == "Some":
        p_ = strip(v_open[4][0])
        ok_c = ((mir.is_call(p_) and p_[1].name in MULS) or (p_[0] == "bin" and p_[1] in ("Mul", "MulWithOverflow"))) and \
            acc in [strip(x) for x in (p_[2] if p_[0] == "call" else p_[2:4])] and \
            any(isinstance(x, tuple) and x and x[0] == "param" and x[1] == 3 for a_ in (p_[2] if p_[0] == "call" else p_[2:4]) for x in [strip(a_)] + list(mir.subterms(a_)))
    e = [] if ok_c else ["an unassigned literal's prime is not multiplied into the clause product: %s" % show(v_open)[:60]]
    out.append(inst("HS", "%s:%s" % (key, names[2]), VIOLATION if e else OK, k, None, "; ".join(e) or "unassigned literal: Some(product * prime)"))
    errs = []
    seed = strip(cs.args[1])
    if not (seed[0] == "const" and str(seed[2]) == "1"):
        errs.append("the fold over the clause's literals starts from %s, not from 1" % show(seed)[:30])
    hr = strip(h.terms.ret)
    if hr != strip(cs.term):
        errs.append("?the helper does not return the fold's result as it is")
    errs += _hash_side(hashfn, h)
    out.append(inst("HS", "%s:%s" % (key, names[3]), verdict_of(errs), hashfn, None,
                    errtext(errs) if errs else "Some(product) is multiplied into every accumulator entry; None skips the clause"))
    return out


def helper_form(prog, hashfn):
    """CnfHasher::hash with the literal loop in a private helper `h(clause, model) -> Option<product>`:
       in the helper:  a true literal returns None with nothing multiplied; a false literal goes to the next literal with
                       nothing multiplied; an unassigned literal multiplies its prime in; the loop's exit returns Some(product)
       in hash:        None leads to the next clause with no multiplication or store; Some(p) is multiplied into the accumulator"""
    out = []
    key = hashfn.npath
    cands = [g for g in prog.lib_fns if g.impl_self == "repr::cnf::CnfHasher" and g is not hashfn and
             any(c.callee.name == "lit_implied" for c in g.terms.calls)]
    names = ("satisfied-clause-skipped", "false-literal-skipped", "unassigned-literal-multiplied", "clause-product-accumulated")
    if not cands:
        tf = _try_fold_form(prog, hashfn, names)
        if tf is not None:
            return tf
    if len(cands) != 1 or not any(c.callee.name == cands[0].name for c in hashfn.terms.calls):
        return [inst("HS", "%s:%s" % (key, n), UNDECIDED, hashfn, None, "per-literal scan not found in hash or in one helper of the hasher") for n in names]
    g = cands[0]
    te, cfg = g.terms, g.cfg

    def branch(name):
        cs = [c for c in te.calls if c.callee.name == name and "PartialModel" in c.callee.key()]
        if len(cs) != 1:
            return None, None, None
        nxt = g.blocks[cs[0].bb]["term"].get("target")
        sw = g.blocks[nxt]["term"] if nxt is not None else None
        if not sw or sw["k"] != "switch":
            return cs[0], None, None
        c = strip(te.switch_term[nxt][0])
        inverted = c[0] == "un" and c[1] == "Not"
        false_t = [tg for v, tg in sw["targets"] if v == "0"]
        if not false_t:
            return cs[0], None, None
        t_, f_ = sw["otherwise"], false_t[0]
        return (cs[0], f_, t_) if inverted else (cs[0], t_, f_)
    imp, imp_true, _ = branch("lit_implied")
    neg, neg_true, neg_false = branch("lit_neg_implied")
    loops = sorted([h for h, body in cfg.loop_headers.items() if imp is not None and imp.bb in body], key=lambda h: len(cfg.loop_headers[h]))
    if imp is None or neg is None or not loops or imp_true is None or neg_true is None:
        return [inst("HS", "%s:%s" % (key, n), UNDECIDED, g, None, "helper %s: branches on the literal's status not recognised" % g.name) for n in names]
    h_in = loops[0]
    none_bbs = {a[0] for a in te.aggs if isinstance(a[1], tuple) and a[1][0] == "agg" and a[1][3] == "None"}
    some = [a for a in te.aggs if isinstance(a[1], tuple) and a[1][0] == "agg" and a[1][3] == "Some"]

    def muls(blocks):
        return [c for c in te.calls if c.bb in blocks and c.callee.name in MULS]
    # (a)
    reach = cfg.reachable_from(imp_true, avoid={h_in})
    errs = []
    if muls(reach):
        errs.append("a literal that is true in the model still multiplies (line %d) before the helper returns" % muls(reach)[0].line)
    if not (reach & none_bbs):
        errs.append("a literal that is true in the model does not make the helper return None (clause satisfied)")
    if any(a[0] in reach for a in some):
        errs.append("a satisfied clause can still return a product")
    out.append(inst("HS", "%s:%s" % (key, names[0]), VIOLATION if errs else OK, g, None,
                    "; ".join(errs) if errs else "true literal: helper returns None at once"))
    # (b)
    reach = cfg.reachable_from(neg_true, avoid={h_in})
    errs = []
    if muls(reach):
        errs.append("a literal that is false in the model still multiplies its prime in (line %d)" % muls(reach)[0].line)
    if not any(h_in in cfg.succ[b] for b in reach):
        errs.append("a false literal does not continue with the next literal")
    out.append(inst("HS", "%s:%s" % (key, names[1]), VIOLATION if errs else OK, g, None,
                    "; ".join(errs) if errs else "false literal: next literal, nothing multiplied"))
    # (c)
    reach = cfg.reachable_from(neg_false, avoid={h_in}) if neg_false is not None else set()
    m = muls(reach)
    errs = []
    if not m:
        errs.append("an unassigned literal's prime is not multiplied into the clause product")
    elif not any(any(x[0] == "mu" for x in mir.subterms(a)) for c in m for a in c.args):
        errs.append("the product does not accumulate (no loop-carried operand)")
    out.append(inst("HS", "%s:%s" % (key, names[2]), VIOLATION if errs else OK, g, None,
                    "; ".join(errs) if errs else "clause product *= prime of each unassigned literal"))
    # (d) helper returns Some(product); hash multiplies Some(p) in and skips None
    errs = []
    if not any(any(x[0] == "mu" and x[1] == h_in for x in mir.subterms(a[1])) for a in some):
        errs.append("the helper does not return Some(clause product) after the last literal")
    errs += _hash_side(hashfn, g)
    from .base import verdict_of, errtext
    out.append(inst("HS", "%s:%s" % (key, names[3]), verdict_of(errs), hashfn, None,
                    errtext(errs) if errs else "Some(product) is multiplied into every accumulator entry; None skips the clause"))
    return out
