"""WS — index spaces of the watched-literal scheme.

UnitPropagate uses three kinds of `usize`: variable labels (first-level index of watch_list_pos/neg),
clause indices (the *elements* of a watch list, and the index into the CNF's clause vector) and
positions inside one watch list (the cursor `watcher_idx`).  They are interchangeable to the type
checker and coincide for tiny inputs.  Every use is classified from its definition:

  watch_list_x[L]                 L is a label
  watch_list_x[L][P], swap_remove(P)   P is a position (the loop-carried cursor)
  watch_list_x[L].contains(&C), .push(C), clauses()[C]   C is a clause index
                                  (an element read from a watch list, or the enumerate index over clauses)
"""
from . import mir, vo
from .base import inst, OK, VIOLATION, UNDECIDED, strip
from .facts import CheckerError
from .mir import show

UP = "repr::unit_prop::UnitPropagate"


def is_wl(t):
    t = strip(t)
    while isinstance(t, tuple) and t and t[0] in ("ref", "deref", "mut"):
        t = strip(t[1])
    if isinstance(t, tuple) and t and t[0] == "field" and t[2] in ("watch_list_pos", "watch_list_neg"):
        return True
    return False


def is_wl_local(fn, t):
    """local tables of the constructor, before they are moved into the struct"""
    t = strip(t)
    return isinstance(t, tuple) and len(t) == 2 and t[0] in ("mutref", "ref", "local") and isinstance(t[1], int) \
        and t[1] in table_locals(fn)


_TL = {}


def table_locals(fn):
    """locals that become the watch_list fields of the UnitPropagate value the function builds (whatever they are called)"""
    if id(fn) in _TL:
        return _TL[id(fn)]
    res = set()
    for a in fn.terms.aggs:
        t = a[1]
        if isinstance(t, tuple) and t[0] == "agg" and str(t[2]).endswith("UnitPropagate") and len(t[4]) >= 2:
            names = t[5] if len(t) > 5 and t[5] else ()
            for i, op in enumerate(t[4]):
                fld = names[i] if i < len(names) else ""
                if names and not str(fld).startswith("watch_list"):
                    continue
                op = strip(op)
                if op[0] == "mu":
                    res.add(op[2])
                elif op[0] in ("local",) and isinstance(op[1], int):
                    res.add(op[1])
            if not names:
                pass
    _TL[id(fn)] = res
    return res


def wl_row(t, fn=None):
    """t = watch_list_x[L] (Index or IndexMut)"""
    t = strip(t)
    while isinstance(t, tuple) and t and t[0] in ("ref", "deref") and len(t) > 1 and isinstance(t[1], tuple):
        t = strip(t[1])
    if isinstance(t, tuple) and t and t[0] in ("gamma", "phi") and t[2]:     # `if pol { &neg[v] } else { &pos[v] }`
        return all(wl_row(v, fn) for _, v in t[2])
    if isinstance(t, tuple) and t and t[0] == "call" and t[1].name not in ("index", "index_mut") and \
            (t[1].local or getattr(t[1], "res_local", False)):
        # a private accessor that selects the row (`watchers_mut(pos, neg, lit)`): its body with the arguments in place
        from .base import expand
        e = expand(t)
        return e is not None and wl_row(e, fn)
    builtin = isinstance(t, tuple) and t and t[0] == "index" and len(t) >= 3      # indexing of a slice parameter
    if not builtin and not (isinstance(t, tuple) and t and t[0] == "call" and t[1].name in ("index", "index_mut") and len(t[2]) == 2):
        return False

    def table(x):
        x = strip(x)
        if isinstance(x, tuple) and x and x[0] in ("gamma", "phi"):      # `if lit.polarity() { &mut pos } else { &mut neg }`
            return bool(x[2]) and all(table(v) for _, v in x[2])
        return is_wl(x) or (fn is not None and is_wl_local(fn, x))
    return table(t[1] if builtin else t[2][0])


def space(fn, t, depth=0):
    t = strip(t)
    if depth > 10 or not isinstance(t, tuple) or not t:
        return None
    if t[0] in ("gamma", "phi"):
        ds = {space(fn, v, depth + 1) for _, v in t[2]}
        return ds.pop() if len(ds) == 1 else None
    if t[0] == "call" and t[1].name in ("index", "index_mut") and len(t[2]) == 2 and wl_row(t[2][0], fn):
        return "Clause"
    if t[0] == "field" and t[2] == "0" and isinstance(t[1], tuple) and t[1][0] == "as" and t[1][2] == "Some":
        g = strip(t[1][1])
        if mir.is_call(g, "get") and len(g[2]) == 2 and wl_row(g[2][0], fn):
            return "Clause"                                              # `let Some(&c) = row.get(pos)`
    if t[0] == "mu":
        if t[2] in cursor_locals(fn):
            return "Pos"
        return None
    if t[0] == "bin" and t[1] in ("Add", "AddWithOverflow", "Sub", "SubWithOverflow"):
        return space(fn, t[2], depth + 1)
    if t[0] == "field" and t[2] == "0" and isinstance(t[1], tuple) and t[1][0] == "bin":
        return space(fn, t[1], depth + 1)
    if t[0] == "field" and t[2] == "0" and isinstance(t[1], tuple) and t[1][0] == "field" and t[1][2] == "0" \
            and isinstance(t[1][1], tuple) and t[1][1][0] == "as" and mir.is_call(strip(t[1][1][1]), "next"):
        # (idx, c) of `clauses().iter().enumerate()`
        if any(c.callee.name == "enumerate" and "clauses" in show(c.args[0]) for c in fn.terms.calls):
            return "Clause"
        return None
    if vo.dim(fn, t) == "Label":
        return "Label"
    if t[0] == "const":
        return "Const"
    return None


_CUR = {}


def cursor_locals(fn):
    """loop-carried locals compared with the length of a watch-list row in a loop guard: the cursor(s) over that row"""
    if id(fn) in _CUR:
        return _CUR[id(fn)]
    res = set()
    te = fn.terms
    for b, (c, _) in te.switch_term.items():
        c = strip(c)
        if c[0] == "bin" and c[1] in ("Ge", "Lt", "Gt", "Le"):
            sides = [strip(c[2]), strip(c[3])]
            for a, o in ((sides[0], sides[1]), (sides[1], sides[0])):
                if a[0] == "mu" and any(mir.is_call(x, "len") and wl_row(x[2][0], fn) for x in mir.subterms(o)):
                    res.add(a[2])
    for cs in te.calls:
        if cs.callee.name == "get" and len(cs.args) == 2 and wl_row(cs.args[0], fn):
            a = strip(cs.args[1])
            # `row.get(i)` is the bounds test and the access in one: None exactly when i >= len(row)
            if a[0] == "mu" and any(isinstance(c, tuple) and c and c[0] == "discr" and strip(c[1]) == strip(cs.term)
                                    for c in (strip(c_) for c_, _ in te.switch_term.values())):
                res.add(a[2])
    _CUR[id(fn)] = res
    return res


def run(prog):
    out = []
    n = 0
    seen = {}
    for fn in prog.lib_fns:
        if fn.impl_self != UP or not any(b["term"]["k"] == "call" for b in fn.blocks):
            continue
        te = fn.terms
        sites = []
        for cs in te.calls:
            nm = cs.callee.name
            want = None
            arg = None
            what = None
            if nm in ("index", "index_mut") and len(cs.args) == 2:
                if is_wl(cs.args[0]) or is_wl_local(fn, cs.args[0]):
                    want, arg, what = "Label", cs.args[1], "watch list table"
                elif wl_row(cs.args[0], fn):
                    want, arg, what = "Pos", cs.args[1], "watch list row"
                elif mir.is_call(strip(cs.args[0]), "clauses"):
                    want, arg, what = "Clause", cs.args[1], "clause vector"
            elif nm == "get" and len(cs.args) == 2 and wl_row(cs.args[0], fn):
                want, arg, what = "Pos", cs.args[1], "watch list row"
            elif nm in ("contains", "push") and len(cs.args) == 2 and wl_row(cs.args[0], fn):
                want, arg, what = "Clause", cs.args[1], "%s on a watch list row" % nm
            elif nm in ("swap_remove", "remove") and len(cs.args) == 2 and wl_row(cs.args[0], fn):
                want, arg, what = "Pos", cs.args[1], "%s on a watch list row" % nm
            if want is None:
                continue
            sites.append((cs.line, nm, want, arg, what))
        # clauses()[C] appears as an index term inside operands
        done = set()
        for cs in te.calls:
            for a in cs.args:
                for x in mir.subterms(a):
                    if x[0] == "index" and mir.is_call(strip(x[1]), "clauses") and show(x) not in done:
                        done.add(show(x))
                        sites.append((cs.line, "clauses[]", "Clause", x[2], "clause vector"))
        for (line, nm, want, arg, what) in sites:
            cs = _L(line)
            d = space(fn, arg)
            key = "%s:%s:%s" % (fn.npath, nm, want)
            seen[key] = seen.get(key, 0) + 1
            if seen[key] > 1:
                key += "#%d" % seen[key]
            if d is None:
                out.append(inst("WS", key, UNDECIDED, fn, cs.line, "%s: %s not classified" % (what, show(arg)[:60])))
                continue
            n += 1
            ok = d == want or (want == "Pos" and d == "Const")
            out.append(inst("WS", key, OK if ok else VIOLATION, fn, cs.line,
                            "%s takes a %s" % (what, d) if ok else
                            "%s expects a %s but is given a %s (%s): the two coincide only when a clause's index equals its "
                            "position in the scanned watch list" % (what, NAMES[want], NAMES[d], show(arg)[:70])))
    if n < 12:
        # shared accessors legitimately shrink the number of sites (the registry floors count what is left); fewer
        # than a dozen classified uses means the scheme itself was not found
        raise CheckerError("WS: only %d watch-list uses classified (expected >= 12)" % n)
    out += distinct_watches(prog)
    return out


def distinct_watches(prog):
    """WS-dup  when propagation moves a clause's watch to another literal, that literal is chosen by (or the move is
    guarded by) a test that the clause does not already watch it: `contains(&clause)` on that literal's own list.
    Both watches on one literal leave the rest of the clause unwatched; the lists are not undone by pop, so after
    backtracking the clause can become unit without anybody visiting it."""
    out = []
    for fn in prog.lib_fns:
        if fn.impl_self != UP or fn.name != "decide":
            continue
        te = fn.terms
        k = 0
        for cs in te.calls:
            if cs.callee.name != "push" or len(cs.args) != 2 or not wl_row(cs.args[0], fn):
                continue
            k += 1
            row = strip(cs.args[0])
            tested = any(mir.is_call(x, "contains") for x in mir.subterms(row))
            for c, v, _, _ in te.facts_at(cs.bb):
                if any(mir.is_call(x, "contains") for x in mir.subterms(c)):
                    tested = True
            out.append(inst("WS", "%s:WS-dup:push#%d" % (fn.npath, k), OK if tested else VIOLATION, fn, cs.line,
                            "the literal that receives the watch was chosen by a `contains(&clause)` test on its list" if tested else
                            "the watch is moved to %s without testing that the clause does not already watch that literal: both "
                            "watches can end up on one literal and the rest of the clause is never visited again"
                            % show(row)[:70]))
        if k == 0:
            out.append(inst("WS", "%s:WS-dup" % fn.npath, UNDECIDED, fn, None, "no watch move found in decide"))
    return out


class _L:
    def __init__(self, line):
        self.line = line


NAMES = {"Label": "variable label", "Pos": "position in a watch list", "Clause": "clause index", "Const": "constant"}
