"""TS — typestate and pairing.

TS-OCC  every value handed to `propagate` as the item to (re)insert is an *occupied* table
        element: built by HashTableElement::new, or read from a slot under a dominating
        is_occupied test; and an element re-inserted at its home slot (pos = hash % cap)
        carries probe length 0.
TS-STK  SATSolver::decide pushes exactly one state on every non-UNSAT path and none on the
        UNSAT path; pop pops exactly one; new leaves exactly two states.
TS-BAL  in topdown_h every decide(..) whose result is not UNSAT is followed on every path by
        exactly one pop() before the next decide or the return; the UNSAT arm pops nothing.
"""
from . import mir, tdctx, canon
from .base import verdict_of, errtext, inst, OK, VIOLATION, UNDECIDED, strip, gamma_arms
from .facts import CheckerError
from .mir import show

INF = 10 ** 6


def count_until(fn, start, counted, stop, count_start=False):
    """(min, max) number of blocks satisfying `counted` on paths from block `start` until a block
    satisfying `stop` (exclusive) or a return.  Loops containing counted blocks give max = INF."""
    cfg = fn.cfg
    memo = {}
    onstack = set()

    def go(b, first):
        if not first and stop(b):
            return (0, 0)
        if fn.blocks[b]["term"]["k"] == "return":
            c0 = 1 if (counted(b) and (count_start or not first)) else 0
            return (c0, c0)
        if b in memo:
            return memo[b]
        if b in onstack:
            return (0, INF if False else 0)
        onstack.add(b)
        c = 1 if (counted(b) and (count_start or not first)) else 0
        succs = cfg.succ[b]
        if not succs:
            onstack.discard(b)
            memo[b] = None  # diverges (panic): contributes no path
            return None
        res = None
        for s in succs:
            r = go(s, False)
            if r is None:
                continue
            res = r if res is None else (min(res[0], r[0]), max(res[1], r[1]))
        onstack.discard(b)
        if res is None:
            memo[b] = None
            return None
        out = (res[0] + c, min(INF, res[1] + c))
        memo[b] = out
        return out

    r = go(start, True)
    # loops: if a counted block lies on a cycle reachable from start, max is unbounded
    for (u, h) in cfg.back_edges:
        body = cfg.loop_headers.get(h, ())
        if any(counted(b) for b in body) and start in cfg.reachable_from(0) and any(
                x in cfg.reachable_from(start) for x in body):
            if r is not None:
                r = (r[0], INF)
    return r


def ts_occ(prog):
    out = []
    n = 0
    for fn in prog.lib_fns:
        if "backing_store::bump_table" not in fn.npath:
            continue
        te = fn.terms
        for cs in te.calls:
            if cs.callee.name != "propagate":
                continue
            free = cs.callee.key().endswith("bump_table::propagate")
            itm = cs.args[2] if free else cs.args[1]
            pos = cs.args[3] if free else cs.args[2]
            itm_s = strip(itm)
            key = "%s:propagate#itm" % fn.npath
            n += 1
            # passthrough of the caller's own parameter: obligation moves to the callers
            if itm_s[0] == "param":
                out.append(inst("TS-OCC", key, OK, fn, cs.line, "forwards its own parameter (checked at its callers)"))
                continue
            errs = []
            occupied = False
            # a copy of a slot with one field adjusted (`evicted.psl += 1`) is as occupied as the slot it was copied from
            while isinstance(itm_s, tuple) and itm_s and itm_s[0] == "upd" and itm_s[2] != "ptr":
                itm_s = strip(itm_s[1])
            if mir.is_call(itm_s, "new") and "HashTableElement" in itm_s[1].key():
                occupied = True
            else:
                for c, val, _, d in te.facts_at(cs.bb):
                    if mir.is_call(c, "is_occupied") and val != "0":
                        # is_occupied(self, pos) with itm = tbl[pos], or is_occupied(itm)
                        a = c[2]
                        if (len(a) == 2 and itm_s[0] in ("call", "index") and a[1] in (itm_s[2] if itm_s[0] == "index" else itm_s[2][-1],)) \
                                or (len(a) == 1 and strip(a[0]) == itm_s):
                            occupied = True
                    if mir.is_call(c, "is_some") and val != "0" and strip(c[2][0]) == ("field", itm_s, "ptr", "backing_store::bump_table::HashTableElement"):
                        occupied = True
                # iterator filtered by is_occupied
                for x in mir.subterms(itm_s):
                    if x[0] == "mutref":
                        for (h, l), init in te.mu_init.items():
                            if l == x[1]:
                                for y in mir.subterms(init):
                                    if mir.is_call(y, "filter"):
                                        for k in prog.children(fn):
                                            if mir.is_call(k.terms.ret, "is_occupied"):
                                                occupied = True
            if not occupied:
                errs.append("item %s is not known to be occupied (no HashTableElement::new, no dominating "
                            "is_occupied test): empty slots would be inserted and punch holes into probe sequences"
                            % show(itm_s))
            # home-slot reinsertion must carry psl 0
            p = strip(pos)
            home = isinstance(p, tuple) and p[0] == "bin" and p[1] == "Rem" and "hash" in show(p[2])
            if home:
                psl_ok = mir.is_call(itm_s, "new") and len(itm_s[2]) == 3 and itm_s[2][2] == ("const", "u8", "0")
                if not psl_ok:
                    # a propagate that itself restarts the probe length of whatever it is handed makes the caller's value moot
                    from . import rh
                    psl_ok = rh.propagate_seed(prog) == "zero"
                if not psl_ok:
                    errs.append("element is re-inserted at its home slot (hash %% cap) with a stale probe length")
            out.append(inst("TS-OCC", key, VIOLATION if errs else OK, fn, cs.line,
                            "; ".join(errs) if errs else "item is occupied%s" % (" and re-homed with psl 0" if home else "")))
    if n < 2:
        raise CheckerError("TS-OCC: expected >= 2 propagate call sites (growth, displacement), found %d" % n)
    return out


class _Virtual:
    """a push performed by a private helper, seen at the helper's call site"""
    def __init__(self, cs, args):
        self.bb, self.line, self.callee, self.args, self.term = cs.bb, cs.line, cs.callee, args, cs.term


def _push_helpers(prog, S):
    """private methods of the solver that push exactly one state on every path (`fn push_model(&mut self, m)`):
    {helper Fn: the pushed state as a term over the helper's parameters}"""
    out = {}
    if prog is None:
        return out
    for g in prog.lib_fns:
        if g.impl_self != S or g.kind == "Closure" or g.name in ("decide", "new", "pop") or not any(b["term"]["k"] == "call" for b in g.blocks):
            continue
        ps = [cs for cs in g.terms.calls if cs.callee.name == "push" and cs.callee.key().startswith("std::vec::Vec")
              and "state_stack" in show(cs.args[0])]
        if len(ps) != 1:
            continue
        cs = ps[0]
        if any(cs.bb in body for body in g.cfg.loop_headers.values()) or not all(g.cfg.dominates(cs.bb, r) for r in g.cfg.returns):
            continue
        out[g.npath] = (g, cs.args[1])
    return out


def _stack_calls(fn, name, prog=None):
    te = fn.terms
    out = [cs for cs in te.calls if cs.callee.name == name and cs.callee.key().startswith("std::vec::Vec")
           and "state_stack" in show(cs.args[0])]
    if name == "push" and prog is not None:
        helpers = _push_helpers(prog, "repr::unit_prop::SATSolver")
        for cs in te.calls:
            for h in prog.resolve(cs.callee) if (cs.callee.local or getattr(cs.callee, "res_local", False)) else []:
                if h.npath in helpers and h is not fn:
                    g, state = helpers[h.npath]
                    out.append(_Virtual(cs, (cs.args[0], canon.subst(state, {i + 1: a for i, a in enumerate(cs.args)}))))
    if name == "pop":
        # `v.truncate(v.len() - 1)` / `v.truncate(v.len().saturating_sub(1))` drops exactly the last element too
        for cs in te.calls:
            if cs.callee.name == "truncate" and cs.callee.key().startswith("std::vec::Vec") and "state_stack" in show(cs.args[0]) \
                    and len(cs.args) == 2:
                n = strip(cs.args[1])
                if n[0] == "field" and n[2] == "0":
                    n = strip(n[1])
                one = lambda x: strip(x)[0] == "const" and str(strip(x)[2]) == "1"
                is_len = lambda x: mir.is_call(strip(x), "len") and "state_stack" in show(x)
                if (mir.is_call(n, "saturating_sub") and is_len(n[2][0]) and one(n[2][1])) or \
                        (n[0] == "bin" and n[1].startswith("Sub") and is_len(n[2]) and one(n[3])):
                    out.append(cs)
    return out


def ts_stk(prog):
    out = []
    S = "repr::unit_prop::SATSolver"
    dec = prog.find1(name="decide", self_adt=S, unit="rsdd-lib")
    te = dec.terms
    pushes = _stack_calls(dec, "push", prog)
    pops = _stack_calls(dec, "pop")
    push_bbs = {cs.bb for cs in pushes}
    cfg = dec.cfg
    # classify each return alternative by the DecisionResult variant it builds
    alts = []

    def collect(x, pb):
        if isinstance(x, tuple) and x and x[0] == "phi":
            for p, v in x[2]:
                collect(v, p)
        elif isinstance(x, tuple) and x and x[0] == "gamma":
            for _, v in x[2]:
                collect(v, pb)
        else:
            alts.append((pb, x))
    # use aggregate construction sites: exact blocks where a DecisionResult variant is built
    built = [(bb, t, line) for bb, t, line in te.aggs if t[1] == "adt" and (t[2] or "").endswith("DecisionResult")]
    if not built:
        raise CheckerError("SATSolver::decide: no DecisionResult construction found")
    for bb, t, line in built:
        v = t[3]
        dom = sum(1 for pb in push_bbs if cfg.dominates(pb, bb))
        may = sum(1 for pb in push_bbs if bb in cfg.reachable_from(pb))
        also_after = sum(1 for pb in push_bbs if pb in cfg.reachable_from(bb) and pb != bb)
        errs = []
        if pops:
            errs.append("decide pops the state stack")
        if v == "UNSAT":
            if may or also_after:
                errs.append("a state is pushed on the UNSAT path (the caller does not pop after UNSAT)")
        else:
            if not (dom == 1 and may == 1 and also_after == 0):
                errs.append("%s path pushes %s states (must be exactly one)" % (v, "%d..%d" % (dom, may + also_after)))
        out.append(inst("TS-STK", "%s:%s" % (dec.npath, v), VIOLATION if errs else OK, dec, line,
                        "; ".join(errs) if errs else ("no push on UNSAT" if v == "UNSAT" else "exactly one push before returning %s" % v)))
    # provenance: the state that decide pushes is built in this call, and its model is what unit propagation returned
    # for the *current* top model and this call's literal.  (A state fetched from anywhere else — a memo keyed by the
    # residual hash — need not extend the current model: it imports another history's assignments.)
    for k, cs in enumerate(pushes, 1):
        v = strip(canon.inline_local(prog, cs.args[1], lambda h: h.impl_self == S and "{closure" not in h.npath))
        errs = []
        if isinstance(v, tuple) and v and v[0] == "agg" and (v[2] or "").endswith("SatState") and "model" in v[5]:
            m = strip(v[4][v[5].index("model")])
            src = strip(m[1][1]) if canon.is_payload(m, variant="PartialSAT") else None
            # further arguments (a depth budget, a flag) are the propagator's business as long as they are constants
            ok = src is not None and mir.is_call(src, "decide") and len(src[2]) >= 3 and strip(src[2][2]) == ("param", 2) and \
                "state_stack" in show(src[2][1]) and all(strip(a)[0] in ("const", "constitem") for a in src[2][3:])
            if not ok:
                errs.append("the model of the pushed state is %s, not the result of unit propagation from the top model "
                            "with this call's literal" % show(m)[:70])
        elif any(mir.is_call(x, "get") or mir.is_call(x, "get_mut") or mir.is_call(x, "remove") for x in mir.subterms(v)) and \
                any(x == ("param", 1) for x in mir.subterms(v)):
            errs.append("the pushed state is %s: fetched from a table of the solver, not propagated from the current top "
                        "model — it may contain assignments of another history" % show(v)[:70])
        else:
            errs.append("?the pushed state is %s, not a SatState built in this call" % show(v)[:60])
        out.append(inst("TS-STK", "%s:pushed-state#%d" % (dec.npath, k), VIOLATION if errs else OK, dec, cs.line,
                        "; ".join(errs) if errs else "pushes SatState{model: propagate(top model, literal), ..}"))
    popf = prog.find1(name="pop", self_adt=S, unit="rsdd-lib")
    pp = _stack_calls(popf, "pop")
    errs = []
    if len(pp) != 1 or not all(popf.cfg.dominates(pp[0].bb, r) for r in popf.cfg.returns):
        errs.append("%spop must pop exactly one state on every path (found %d pop sites)" % ("?" if not pp else "", len(pp)))
    for cs in popf.terms.calls:
        if cs.callee.name == "truncate" and "state_stack" in show(cs.args[0]) and cs not in pp and len(cs.args) == 2:
            errs = [e for e in errs if not e.startswith("?")]
            errs.append("pop shortens the state stack to %s: it must drop exactly the last state" % show(cs.args[1])[:60])
    if _stack_calls(popf, "push"):
        errs.append("pop pushes")
    out.append(inst("TS-STK", "%s:pop-one" % popf.npath, VIOLATION if errs else OK, popf, None,
                    "; ".join(errs) if errs else "pops exactly one state"))
    # everything a decision changes is on the stack: a field of the solver that decide (or a helper it hands the whole
    # solver to) writes and pop does not rewrite keeps the decided state's value after the pop
    def written(fn, depth=0):
        w = {}
        fte = fn.terms
        for (_, pt, _, line) in fte.stores:
            p_ = strip(pt)
            while isinstance(p_, tuple) and p_ and p_[0] in ("field", "deref", "index") and strip(p_[1]) != ("param", 1):
                p_ = strip(p_[1])
            if isinstance(p_, tuple) and p_ and p_[0] == "field" and strip(p_[1]) == ("param", 1):
                w.setdefault(p_[2], line)
        for cs in fte.calls:
            if not cs.args:
                continue
            a0 = strip(cs.args[0])
            if a0 == ("param", 1) and depth < 2:
                for h in prog.resolve(cs.callee):
                    if h.impl_self == S and h is not fn and h.argc >= 1 and "&mut" in (h.locals[1]["s"] if len(h.locals) > 1 else ""):
                        for k_, v_ in written(h, depth + 1).items():
                            w.setdefault(k_, cs.line)
            if a0[0] == "field" and strip(a0[1]) == ("param", 1) and cs.callee.name in \
                    ("push", "pop", "insert", "remove", "clear", "truncate", "extend", "drain", "retain", "swap_remove", "set", "replace", "take", "append"):
                w.setdefault(a0[2], cs.line)
        return w
    wd, wp = written(dec), written(popf)
    errs = []
    def consulted(fld):
        """is the field read where it decides something (a comparison, a branch, an argument), not merely reported?"""
        for h in prog.lib_fns:
            if h.impl_self != S or h.name in ("new",) or not h.blocks:
                continue
            hte = h.terms
            isf = lambda y: y[0] == "field" and y[2] == fld and strip(y[1]) == ("param", 1)
            conds = [c for (c, _) in hte.switch_term.values()]
            for c in conds:
                if any(isf(y) for y in mir.subterms(c)):
                    return h
            for x in mir.subterms(hte.ret) if hte.ret is not None else ():
                if x[0] == "bin" and any(isf(y) for y in mir.subterms(x)):
                    return h
            for cs in hte.calls:
                if "fmt" in cs.callee.key():
                    continue
                if any(isf(y) for a in cs.args for y in mir.subterms(a)):
                    return h
        return None
    noted = []
    for fld, line in sorted(wd.items()):
        if fld == "state_stack" or fld in wp:
            continue
        if consulted(fld) is None:
            noted.append(fld)
            continue
        errs.append("decide writes the solver's field `%s` (line %s) and pop does not: after decide; pop the field still holds the "
                    "value of the popped state, so whatever reads it answers for a state that no longer exists" % (fld, line))
    if "state_stack" not in wd:
        errs.append("?decide does not touch the state stack")
    out.append(inst("TS-STK", "%s:undo-complete" % dec.npath, verdict_of(errs), dec, None,
                    errtext(errs) if errs else "the only solver state a decision changes is the state stack, which pop shortens%s"
                    % ((" (%s: written, never consulted)" % ", ".join(noted)) if noted else "")))
    newf = prog.find1(name="new", self_adt=S, unit="rsdd-lib")
    te = newf.terms
    errs = []
    pushes = []
    solver = [t for bb, t, line in te.aggs if t[1] == "adt" and (t[2] or "").endswith("SATSolver")]
    if len(solver) != 1:
        errs.append("expected one SATSolver literal")
    else:
        if "state_stack" not in (solver[0][5] or ()):
            raise CheckerError("TS-STK: the solver literal has no `state_stack` field (fields: %s)" % (list(solver[0][5] or ()),))
        i = solver[0][5].index("state_stack")
        init = strip(solver[0][4][i])
        pushes = [cs for cs in te.calls if cs.callee.name == "push" and
                  ("state_stack" in show(cs.args[0]) or cs.args[0] == solver[0][4][i])]
        pushes += [v_ for v_ in _stack_calls(newf, "push", prog) if isinstance(v_, _Virtual)]
        n_init = None
        for x in mir.subterms(init):
            if x[0] == "agg" and x[1] == "array":
                n_init = len(x[4])
            if mir.is_call(x, "new_uninit"):
                # vec![..] lowering: the array is stored into the uninitialised box
                for (_, pt, val, _) in te.stores:
                    if x in mir.subterms(pt) and val[0] == "agg" and val[1] == "array":
                        n_init = len(val[4])
        if n_init != 1:
            errs.append("initial state stack does not hold exactly the empty state (%s)" % show(init))
    somes = [bb for bb, t, line in te.aggs if t[3] == "Some" and t[1] == "adt"]
    if len(pushes) != 1 or not somes or not all(newf.cfg.dominates(pushes[0].bb, b) for b in somes):
        errs.append("the propagated initial state must be pushed exactly once before Some(solver)")
    out.append(inst("TS-STK", "%s:two-states" % newf.npath, VIOLATION if errs else OK, newf, None,
                    "; ".join(errs) if errs else "stack = [empty state] + one push of the initially propagated state"))
    return out


def ts_bal(prog):
    top, ctxs = tdctx.contexts(prog)
    out = []
    if len(ctxs) < 2:
        out.append(inst("TS-BAL", "%s:decides" % top.npath, UNDECIDED, top, None,
                        "expected one decide per polarity in topdown_h or in a helper it calls, found %d" % len(ctxs)))
    helper_bbs = tdctx.helper_calls(ctxs)
    top_pops = {cs.bb for cs in top.terms.calls if cs.callee.name == "pop" and "SATSolver" in cs.callee.key()}
    top_stops = {cs.bb for cs in top.terms.calls if tdctx.is_decide(cs)} | helper_bbs
    for ctx in ctxs:
        fn, cs = ctx.fn, ctx.cs
        te = fn.terms
        pop_bbs = {c.bb for c in te.calls if c.callee.name == "pop" and "SATSolver" in c.callee.key()}
        pop_bbs |= {c_.bb for c_, _v in tdctx.tail_sites(prog, fn)}      # a helper that conjoins and pops once
        dec_bbs = {c.bb for c in te.calls if tdctx.is_decide(c)}
        pol = ctx.pol
        # the switch on the decide result
        sw = [d for d, (c, vm) in te.switch_term.items() if c == ("discr", cs.term)]
        if len(sw) != 1:
            out.append(inst("TS-BAL", "%s:decide(%s)" % (top.npath, pol), UNDECIDED, fn, cs.line,
                            "result of decide is not matched directly"))
            continue
        d = sw[0]
        vm = te.switch_term[d][1] or {}
        t = fn.blocks[d]["term"]
        edges = {}
        for v, b in t["targets"]:
            edges[vm.get(v, v)] = b
        for name in vm.values():
            if name not in edges:
                edges[name] = t["otherwise"]
        for name, b in sorted(edges.items()):
            r = count_until(fn, b, lambda x: x in pop_bbs, lambda x: x in dec_bbs, count_start=True)
            key = "%s:decide(%s):%s" % (top.npath, pol, name)
            if r is None:
                out.append(inst("TS-BAL", key, OK, fn, cs.line, "arm diverges"))
                continue
            want = (0, 0) if name == "UNSAT" else (1, 1)
            ok = r == want
            out.append(inst("TS-BAL", key, OK if ok else VIOLATION, fn, cs.line,
                            ("pops on paths from this arm to the next decide/return: %s; required %s — the solver's "
                             "state stack would be %s afterwards" % (
                                 "%d..%s" % (r[0], "∞" if r[1] >= INF else r[1]), want[0],
                                 "too deep" if r[0] < want[0] else "too shallow")) if not ok else
                            ("%d pop on every path" % want[0])))
        if ctx.via is not None:
            # the helper balances its own decide: no pop in it before the decide, none in the caller after it
            pre = (0, 0) if 0 in dec_bbs else count_until(fn, 0, lambda x: x in pop_bbs, lambda x: x in dec_bbs, count_start=True)
            post = count_until(top, ctx.via.bb, lambda x: x in top_pops, lambda x: x in top_stops, count_start=False)
            ok = (pre is None or pre == (0, 0)) and (post is None or post == (0, 0))
            out.append(inst("TS-BAL", "%s:decide(%s):around-helper" % (top.npath, pol), OK if ok else VIOLATION, fn,
                            ctx.via.line, "no pop outside the arms of the decide" if ok else
                            "pops before the decide in %s: %s; pops in topdown_h after the call: %s" % (fn.name, pre, post)))
    # no pop before the first decide (on paths from entry)
    first = count_until(top, 0, lambda x: x in top_pops, lambda x: x in top_stops, count_start=True)
    ok = first is None or first == (0, 0)
    out.append(inst("TS-BAL", "%s:entry" % top.npath, OK if ok else VIOLATION, top, None,
                    "no pop before the first decide" if ok else "pop before any decide: %s" % (first,)))
    return out


def run(prog):
    return ts_occ(prog) + ts_stk(prog) + ts_bal(prog)
