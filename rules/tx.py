"""TX — the text handed to the DIMACS parser is not thinned by content.

Both DIMACS readers (`Cnf::from_dimacs`, `LogicalExpr::from_dimacs`) pass their input to the external `dimacs` parser.
A pre-processing step in front of it is legitimate when it removes what is *not* formula text (comment lines, a `%`
trailer, `\\r`).  It is wrong when its test can also be met by formula text: in DIMACS the body is a stream of integers
in which line breaks mean nothing, so a clause terminator `0` may stand on a line of its own (wrapped clauses, the
empty clause — which `to_dimacs` prints exactly so).  Rule: follow the text from the reader's parameter to
`parse_dimacs` (through private helpers); every element-dropping step on the way (`filter`, `filter_map`, `retain`,
`skip_while`, `take_while`) whose predicate looks at the content of the line/token only is examined: the string
constants the predicate compares the element with (==, starts_with, ends_with, contains, matches!) are collected, and a
constant that is itself a sequence of DIMACS body tokens (integers and blanks: `0`, ` 0`, `-1`) is a violation — lines
of the formula would be dropped wherever they stand.  A predicate with no such constant (comment markers only) is
accepted; a dropping step whose predicate has no string constant at all is undecided.  The same holds for
`replace(pat, "")`/`trim_*matches(pat)` with such a pattern.  Expected count on today's tree: the text reaches the
parser untouched (two instances, ok).
"""
import re
from . import mir, canon
from .base import inst, OK, VIOLATION, UNDECIDED, strip
from .mir import show

DROPPERS = ("filter", "filter_map", "retain", "skip_while", "take_while", "retain_mut", "extract_if", "drain_filter")
STR_TESTS = ("eq", "ne", "starts_with", "ends_with", "contains", "matches", "find", "strip_prefix", "strip_suffix")
REWRITERS = ("replace", "replacen", "trim_end_matches", "trim_start_matches", "trim_matches", "strip_suffix", "strip_prefix")
BODY_TOKENS = re.compile(r"^[\s]*-?\d+([\s]+-?\d+)*[\s]*$")


def const_strings(t):
    out = []
    for x in mir.subterms(t):
        if x[0] == "const" and x[1] == "char" and isinstance(x[2], str) and x[2].isdigit():
            out.append(chr(int(x[2])))
            continue
        if x[0] == "const" and isinstance(x[1], str) and "str" in x[1] and isinstance(x[2], str):
            v = x[2]
            if len(v) >= 2 and v[0] == '"' and v[-1] == '"':
                v = v[1:-1]
            out.append(v.encode().decode("unicode_escape") if "\\" in v else v)
    return out


def expand(prog, t, depth=3):
    """the term with calls of crate-local helpers replaced by their return terms (parameters substituted)"""
    if depth == 0 or not isinstance(t, tuple) or not t:
        return t
    if t[0] == "call":
        args = tuple(expand(prog, a, depth) for a in t[2])
        c = t[1]
        if c.local:
            gs = [g for g in prog.resolve(c) if g.unit.endswith("-lib.json")]
            if len(gs) == 1 and "{closure" not in gs[0].npath:
                body = gs[0].terms.ret
                if body is not None:
                    try:
                        b = canon.subst(body, params={i + 1: a for i, a in enumerate(args)})
                    except Exception:
                        b = None
                    if b is not None:
                        return ("helper", c, expand(prog, b, depth - 1), gs[0])
        return (t[0], c, args) + tuple(t[3:])
    return tuple(expand(prog, a, depth) if isinstance(a, tuple) else a for a in t)


def closure_bodies(prog, t, seen=None, depth=3):
    """Fn objects of every closure literal (and local fn item) mentioned in t, transitively"""
    seen = seen if seen is not None else {}
    for x in mir.subterms(t):
        g = None
        if x[0] == "agg" and x[1] == "closure":
            g = canon.closure_fn(prog, x)[0]
        elif x[0] == "fnref" and getattr(x[1], "local", False):
            r = prog.resolve(x[1])
            g = r[0] if len(r) == 1 else None
        if g is not None and g.npath not in seen:
            seen[g.npath] = g
            if depth > 0:
                for cs in g.terms.calls:
                    for a in cs.args:
                        closure_bodies(prog, a, seen, depth - 1)
                closure_bodies(prog, g.terms.ret, seen, depth - 1)
    return seen


def predicate_constants(prog, clo):
    """string constants the predicate closure (or function item) tests its element against"""
    out = []
    for g in closure_bodies(prog, clo).values():
        for cs in g.terms.calls:
            if cs.callee.name in STR_TESTS or "PartialEq" in (cs.callee.key() or ""):
                for a in cs.args:
                    out += const_strings(a)
            elif cs.callee.local:
                for h in prog.resolve(cs.callee):
                    for cs2 in h.terms.calls:
                        if cs2.callee.name in STR_TESTS or "PartialEq" in (cs2.callee.key() or ""):
                            for a in cs2.args:
                                out += const_strings(a)
        # `match line { "%" | "0" => .. }` compiles to eq calls as well; a byte/char test leaves integer constants,
        # which say nothing about whole lines — not collected
    return out


def run(prog):
    out = []
    fns = [f for f in prog.lib_fns if f.name == "from_dimacs" and "{closure" not in f.npath]
    for fn in fns:
        te = fn.terms
        key = "%s:text-as-given" % fn.npath
        ps = [cs for cs in te.calls if cs.callee.name == "parse_dimacs"]
        if not ps:
            # the parser call may sit in a private helper
            for cs in te.calls:
                if cs.callee.local:
                    for g in prog.resolve(cs.callee):
                        ps += [c2 for c2 in g.terms.calls if c2.callee.name == "parse_dimacs"]
        if not ps:
            out.append(inst("TX", key, UNDECIDED, fn, None, "?no call of the DIMACS parser found"))
            continue
        errs, und, steps = [], [], 0
        for cs in ps:
            t = expand(prog, cs.args[0])
            # a text assembled in a loop is a loop-carried value: look at what every iteration does to it
            seen_mu, work = set(), [t]
            parts = [t]
            while work:
                for x in mir.subterms(work.pop()):
                    if x[0] == "mu" and (x[1], x[2]) not in seen_mu:
                        seen_mu.add((x[1], x[2]))
                        for u in [te.mu_init.get((x[1], x[2]))] + list(te.mu_update.get((x[1], x[2]), [])):
                            if isinstance(u, tuple):
                                u = expand(prog, u)
                                parts.append(u)
                                work.append(u)
            t = ("parts",) + tuple(parts)
            # text that was assembled in place (`let mut s = String::new(); for l in lines { if .. { s.push_str(l) } }`)
            # shows up as mut[...] terms: the loop's guards are branch facts of the pushing block
            for x in mir.subterms(t):
                if x[0] == "mut" and x[2].name in ("push_str", "push", "extend", "write_str"):
                    site = te.calls_by_bb.get(x[1][0]) if isinstance(x[1], tuple) and x[1] else None
                    if site is not None:
                        for c, v, _, _ in te.facts_at(site.bb):
                            ks = const_strings(c)
                            bad = [k for k in ks if BODY_TOKENS.match(k)]
                            steps += 1 if ks else 0
                            if bad:
                                errs.append("text is copied to the parser's input only under a test against %r: such a line can be "
                                            "formula text (a clause terminator on a line of its own, the empty clause)" % bad[0])
            for x in mir.subterms(t):
                if not mir.is_call(x):
                    continue
                nm = x[1].name
                if nm in DROPPERS and len(x[2]) >= 2:
                    steps += 1
                    ks = predicate_constants(prog, x[2][1])
                    bad = [k for k in ks if BODY_TOKENS.match(k)]
                    if bad:
                        errs.append("`%s` in front of the parser drops every element that matches %r wherever it stands: in DIMACS a "
                                    "clause terminator may stand on a line of its own (wrapped clauses, the empty clause as printed "
                                    "by to_dimacs), so formula text is lost" % (nm, bad[0]))
                    elif not ks:
                        und.append("?`%s` in front of the parser with a predicate that compares with no string constant" % nm)
                elif nm in REWRITERS and len(x[2]) >= 2:
                    ks = const_strings(x[2][1])
                    bad = [k for k in ks if BODY_TOKENS.match(k)]
                    if bad:
                        steps += 1
                        errs.append("`%s(%r, ..)` rewrites formula text in front of the parser" % (nm, bad[0]))
        det = "; ".join(dict.fromkeys(errs or und))
        out.append(inst("TX", key, VIOLATION if errs else (UNDECIDED if und else OK), fn, None,
                        det if det else ("the parser receives the reader's text%s" % (
                            " (%d pre-processing step(s), none of which can match formula text)" % steps if steps else " as given"))))
    return out
