"""CM — SDD compression merges exactly the elements with equal subs.

CompressionSddBuilder::compress scans the element list with an outer position i and an inner cursor j.
Checked on the loop nest (terms for the data, CFG paths for the cursor):

  CM1 test      the merge test is sdd-equality of sub(node[i]) and sub(node[j]) — two *different* positions,
                i from the outer loop, j the inner cursor started at i+1 and bounded by the *current* length
  CM2 merge     on a match node[i] becomes (prime(node[i]) ∨ prime(node[j]), sub(node[i])) and node[j] is removed
  CM3 cursor    an iteration either removes node[j] (swap_remove: the last element is moved into slot j) and keeps
                j, or keeps node[j] and advances j by one — advancing after a removal skips the moved-in element,
                which may have the same sub (the result is then not compressed)
"""
from . import mir
from .base import verdict_of, errtext, inst, OK, VIOLATION, UNDECIDED, strip
from .facts import CheckerError
from .mir import show


def run(prog):
    fns = [f for f in prog.lib_fns if f.name == "compress" and "CompressionSddBuilder" in f.npath]
    if len(fns) != 1:
        raise CheckerError("CM: CompressionSddBuilder::compress not found")
    out = compress_rule(prog, fns[0])
    out += trimming(prog)
    # every other builder's `compress` that actually does something is held to the same scheme
    for f in prog.lib_fns:
        if f.name == "compress" and f is not fns[0] and "{closure" not in f.npath and f.cfg.loop_headers and \
                "SddBuilder" in (f.impl_trait or ""):
            try:
                out += compress_rule(prog, f)
            except CheckerError as e:
                out.append(inst("CM", "%s:CM1:test" % f.npath, UNDECIDED, f, None, "? " + str(e)))
    return out


def compress_rule(prog, fn, outer_param=None, key_fn=None):
    te, cfg = fn.terms, fn.cfg
    out = []
    key_fn = key_fn or fn
    if outer_param is None and not any(cs.callee.name in ("swap_remove", "remove") for cs in te.calls):
        # the inner loop may live in a private helper `absorb(node, i)` called once per position of the outer loop
        for cs in te.calls:
            if not (cs.callee.local or getattr(cs.callee, "res_local", False)) or len(cs.args) < 3:
                continue
            hs = [h for h in prog.resolve(cs.callee) if h.kind != "Closure" and
                  any(c2.callee.name in ("swap_remove", "remove") for c2 in h.terms.calls)]
            if len(hs) != 1:
                continue
            ks = [i + 1 for i, a in enumerate(cs.args) if i >= 2 and any(x[0] == "mu" for x in [strip(a)] + list(mir.subterms(a)))]
            if len(ks) == 1:
                return compress_rule(prog, hs[0], outer_param=ks[0], key_fn=fn)
    jl = None
    for cs in te.calls:   # the inner cursor is the loop-carried local handed to the removal (whatever it is called)
        if cs.callee.name in ("swap_remove", "remove") and len(cs.args) == 2 and strip(cs.args[0]) == ("param", 2):
            for x in mir.subterms(cs.args[1]):
                if x[0] == "mu":
                    jl = x[2]
                    break
    jm = [("mu", h, l) for (h, l) in te.mu_init if l == jl]
    if jl is None or not jm:
        raise CheckerError("CM: inner cursor `j` not found as a loop-carried local")
    jmu = min(jm, key=lambda m: len(cfg.loop_headers[m[1]]))   # innermost loop carrying j
    hj = jmu[1]

    outer_mus = {("mu", h, l) for (h, l) in te.mu_init if h != hj and cfg.loop_headers[hj] < cfg.loop_headers.get(h, set()) and l != jl}

    def is_i(t):
        """the position of the outer loop: the item of `for i in 0..len`, or the cursor of an outer `while i < len`"""
        t = strip(t)
        if outer_param is not None and t == ("param", outer_param):
            return True
        if t in outer_mus:
            return True
        return t[0] == "field" and t[2] == "0" and "next(" in show(t) and not any(x == jmu for x in mir.subterms(t))

    def elem(t):
        """node[k] -> 'i' / 'j'"""
        t = strip(t)
        if (t[0] == "call" and t[1].name in ("index", "index_mut") and strip(t[2][0]) == ("param", 2)) or \
                (t[0] == "index" and strip(t[1]) == ("param", 2)):
            k = strip(t[2][1] if t[0] == "call" else t[2])
            return "j" if k == jmu else ("i" if is_i(k) else "?")
        return None

    def acc(t, name):
        t = strip(t)
        return elem(t[2][0]) if mir.is_call(t, name) and t[2] else None
    # CM1
    eqs = [cs for cs in te.calls if cs.callee.name in ("eq", "sdd_eq") and len(cs.args) >= 2 and cs.bb in cfg.loop_headers[hj]]
    errs = []
    if len(eqs) != 1:
        errs.append("?expected one equality test in the inner loop, found %d" % len(eqs))
    else:
        a, b = acc(eqs[0].args[-2], "sub"), acc(eqs[0].args[-1], "sub")
        if {a, b} != {"i", "j"}:
            errs.append("the merge test compares %s with %s, expected sub(node[i]) with sub(node[j])"
                        % (show(eqs[0].args[-2])[:50], show(eqs[0].args[-1])[:50]))
    init = strip(te.mu_init[(hj, jl)])
    si = show(init)
    i0 = init
    if i0[0] == "field" and i0[2] == "0" and isinstance(i0[1], tuple):
        i0 = strip(i0[1])
    plus1 = i0[0] == "bin" and i0[1] in ("Add", "AddWithOverflow") and strip(i0[3]) == ("const", "usize", "1") and is_i(i0[2])
    if not plus1 and not ("AddWithOverflow 1" in si and "next(" in si):
        errs.append("the inner cursor starts at %s, not at i + 1" % si[:50])
    bound = [c for b, (c, _) in te.switch_term.items() if b in cfg.loop_headers[hj] and strip(c)[0] == "bin"
             and strip(c)[1] in ("Lt", "Ge", "Le", "Gt") and any(x == jmu for x in mir.subterms(strip(c)))]
    if not bound or not any(mir.is_call(x, "len") for x in mir.subterms(strip(bound[0]))):
        errs.append("the inner loop is not bounded by the current length of the list")
    out.append(inst("CM", "%s:CM1:test" % key_fn.npath, verdict_of(errs), fn, eqs[0].line if eqs else None,
                    errtext(errs) if errs else "merge test sub(node[i]) == sub(node[j]), j from i+1 while j < len"))
    # CM2
    errs = []
    news = [cs for cs in te.calls if cs.callee.name == "new" and "SddAnd" in cs.callee.key()]
    rms = [cs for cs in te.calls if cs.callee.name in ("swap_remove", "remove") and strip(cs.args[0]) == ("param", 2)]
    if len(news) != 1 or len(rms) != 1:
        errs.append("?expected one SddAnd::new and one removal, found %d/%d" % (len(news), len(rms)))
    else:
        p, s_ = strip(news[0].args[0]), strip(news[0].args[1])
        # accumulator form: the merged prime is collected in a local over the inner loop (seeded with prime(node[i]),
        # `acc = acc ∨ prime(node[j])` on a merge) and node[i] is written once, after the loop — then nothing overwrites
        # node[i] in the loop and a prime read before it is not stale
        acc_form = False
        if p[0] == "mu" and p[1] == hj:
            init_p = strip(te.mu_init.get((p[1], p[2]), ("top",)))
            ups_p = te.mu_update.get((p[1], p[2]), [])

            def upd_ok(u):
                u = strip(u)
                if u == p:
                    return True
                if u[0] in ("gamma", "phi"):
                    return all(upd_ok(v) for _, v in u[2])
                return mir.is_call(u, "or") and ((strip(u[2][-2]) == p and acc(u[2][-1], "prime") == "j") or
                                                  (strip(u[2][-1]) == p and acc(u[2][-2], "prime") == "j"))
            in_loop_i = [st for st in te.stores if st[0] in cfg.loop_headers[hj] and elem(st[1]) == "i"]
            after_i = [st for st in te.stores if st[0] not in cfg.loop_headers[hj] and elem(st[1]) == "i" and
                       any(strip(x) == p or (x[0] == "mu" and (x[1], x[2]) == (p[1], p[2])) for x in mir.subterms(st[2]))]
            if acc(init_p, "prime") == "i" and ups_p and all(upd_ok(u) for u in ups_p) and not in_loop_i and (after_i or news[0].bb not in cfg.loop_headers[hj]):
                acc_form = True
        if acc_form:
            pass
        elif not (mir.is_call(p, "or") and {acc(p[2][-2], "prime"), acc(p[2][-1], "prime")} == {"i", "j"}):
            errs.append("merged prime is %s, expected prime(node[i]) ∨ prime(node[j])" % show(p)[:80])
        if acc(s_, "sub") not in ("i", "j"):
            errs.append("merged sub is %s, expected the common sub" % show(s_)[:60])
        # node[i] is overwritten by every merge, so the prime of node[i] that enters a merge has to be read in that very
        # iteration: a value read before the inner loop is the prime node[i] had *before* earlier merges of this i
        body_j = cfg.loop_headers[hj]
        for cs in ([] if acc_form else te.calls):
            if cs.callee.name == "prime" and cs.args and elem(cs.args[0]) == "i" and cs.bb not in body_j and \
                    any(strip(cs.term) == strip(x) for x in [strip(p)] + list(mir.subterms(p))):
                errs.append("the prime of node[i] that is merged is read before the inner loop (line %s) although every merge "
                            "overwrites node[i]: from the second merge of one i on, the primes merged earlier are lost and the "
                            "primes no longer cover everything" % cs.line)
        stores = [st for st in te.stores if st[0] in cfg.loop_headers[hj]]
        tgt = [elem(st[1]) for st in stores]
        if "i" not in tgt and not acc_form:
            errs.append("the merged element is not written back to node[i] (stores: %s)" % [show(st[1])[:40] for st in stores])
        if strip(rms[0].args[1]) != jmu:
            errs.append("the removed position is %s, not j" % show(rms[0].args[1])[:40])
        eq_txt = show(("call", eqs[0].callee, tuple(eqs[0].args))) if eqs else None
        if not any(show(strip(c)) == eq_txt and val != "0" for c, val, _, _ in te.facts_at(rms[0].bb)):
            errs.append("the removal is not conditional on the merge test")
        # ... and on nothing else: every pair with equal subs must be merged
        fa = te.facts_at(rms[0].bb)
        accepted = lambda sc, c: sc == eq_txt or sc.startswith("discr(next(") or \
            (any(x == jmu or x in outer_mus for x in mir.subterms(strip(c))) and "len(" in sc)
        # facts derived from an accepted test (its negation unfolded, the body of the predicate it calls) say nothing new
        ok_ds = {d_ for c, val, _, d_ in fa if accepted(show(strip(c)), c)}
        for c, val, _, d_ in fa:
            sc = show(strip(c))
            if accepted(sc, c) or d_ in ok_ds:
                continue
            errs.append("elements with equal subs are merged only if additionally `%s` is %s: the remaining equal subs stay "
                        "in the node, which is then not compressed" % (sc[:70], "false" if val == "0" else "true"))
    out.append(inst("CM", "%s:CM2:merge" % key_fn.npath, verdict_of(errs), fn, news[0].line if news else None,
                    errtext(errs) if errs else "node[i] := (prime_i ∨ prime_j, sub_i); node[j] removed, under the merge test"))
    # CM3: per inner iteration remove-and-stay or keep-and-advance
    body = cfg.loop_headers[hj]
    rm_bbs = {cs.bb for cs in rms}
    inc_bbs = set()
    for b in body:
        for st in fn.blocks[b]["stmts"]:
            if st["k"] == "assign" and st["lhs"]["l"] == jl and not st["lhs"]["proj"]:
                inc_bbs.add(b)
    results = set()

    def dfs(b, rm, inc, seen):
        if len(results) > 32:
            return
        for s_ in cfg.succ[b]:
            if s_ not in body or fn.blocks[s_]["term"]["k"] == "unreachable":
                continue
            if s_ == hj:
                results.add((rm, min(inc, 2)))
                continue
            if s_ in seen:
                continue
            dfs(s_, rm or (s_ in rm_bbs), inc + (1 if s_ in inc_bbs else 0), seen | {s_})
    dfs(hj, False, 0, {hj})
    errs = []
    for rm, inc in sorted(results):
        if rm and inc:
            errs.append("an iteration removes node[j] and also advances j: the element moved into slot j is never compared with node[i]")
        if not rm and inc != 1:
            errs.append("an iteration keeps node[j] but advances j by %d" % inc)
    if not results:
        errs.append("?no path through the inner loop found")
    out.append(inst("CM", "%s:CM3:cursor" % key_fn.npath, verdict_of(errs), fn, None,
                    errtext(errs) if errs else "per iteration: remove-and-stay or keep-and-advance %s" % sorted(results)))
    return out



def _is_len(t):
    """len(node) / the length of the slice it derefs to"""
    t = strip(t)
    if mir.is_call(t, "len"):
        return True
    return isinstance(t, tuple) and t and t[0] == "un" and t[1] == "PtrMetadata" or show(t).startswith("PtrMetadata(")


def trimming(prog):
    """CM4  the trimming base cases of canonicalize return an SDD equivalent to the element list they replace.
    For each `Some(x)` the function returns, the dominating tests (list length, is_true / is_false of primes and subs)
    are taken as constraints and x is compared with ⋁ pᵢ∧sᵢ for every Boolean valuation of the subs and every choice
    of the one prime that holds (primes partition ⊤) — a finite evaluation of the guard/return pairs.  The empty list
    is not judged: it cannot arise from a partition."""
    import itertools
    fns = [g for g in prog.lib_fns if g.name == "canonicalize_base_case" and "CompressionSddBuilder" in g.npath]
    if len(fns) != 1:
        raise CheckerError("CM4: canonicalize_base_case not found")
    fn = fns[0]
    te = fn.terms
    out = []
    k = 0

    def elem(t):
        """prime(index(arg2,i)) / sub(index(arg2,i)) -> ('p'|'s', i)"""
        t = strip(t)
        if t[0] == "call" and t[1].name in ("prime", "sub") and t[2]:
            ix = strip(t[2][0])
            if (ix[0] == "call" and ix[1].name == "index" and strip(ix[2][0]) == ("param", 2)) or (ix[0] == "index" and strip(ix[1]) == ("param", 2)):
                i = strip(ix[2][1] if ix[0] == "call" else ix[2])
                if i[0] == "const":
                    return ("p" if t[1].name == "prime" else "s", int(i[2]))
        return None
    for a in te.aggs:
        t = a[1]
        if not (isinstance(t, tuple) and t[0] == "agg" and t[3] == "Some" and t[4]):
            continue
        x = strip(t[4][0])
        facts = [(strip(c), val != "0") for c, val, _, _ in te.facts_at(a[0])]
        n = None
        for c, holds in facts:
            if mir.is_call(c, "is_empty") and holds:
                n = 0
            if c[0] == "bin" and c[1] == "Eq" and holds and _is_len(c[2]) and strip(c[3])[0] == "const":
                n = int(strip(c[3])[2])
        k += 1
        key = "%s:CM4:trim#%d" % (fn.npath, k)
        if n is None:
            out.append(inst("CM", key, UNDECIDED, fn, None, "list length not fixed on the path returning %s" % show(x)[:40]))
            continue
        if n == 0:
            out.append(inst("CM", key, OK, fn, None, "empty list: not judged (cannot arise from a partition of ⊤)"))
            continue
        cons = []   # (kind, i, value) for is_true / is_false facts that hold
        for c, holds in facts:
            if holds and c[0] == "call" and c[1].name in ("is_true", "is_false") and c[2]:
                e = elem(c[2][-1])
                if e:
                    cons.append((e[0], e[1], 1 if c[1].name == "is_true" else 0))
        bad = None
        cases = 0
        for istar in range(n):
            for subs in itertools.product((0, 1), repeat=n):
                env_p = [int(i == istar) for i in range(n)]
                if any((env_p[i] if kind == "p" else subs[i]) != v for kind, i, v in cons if i < n):
                    continue
                # a prime known to be ⊤ forces it to be the one that holds in *every* valuation
                cases += 1
                want = subs[istar]
                if mir.is_call(x, "true_ptr"):
                    got = 1
                elif mir.is_call(x, "false_ptr"):
                    got = 0
                else:
                    e = elem(x)
                    if e is None or e[1] >= n:
                        bad = "returns %s, not an element of the list" % show(x)[:40]
                        break
                    got = env_p[e[1]] if e[0] == "p" else subs[e[1]]
                if got != want:
                    bad = ("for a %d-element list under the tests %s it returns %s, which differs from ⋁ pᵢ∧sᵢ when prime %d holds "
                           "and the subs are %s" % (n, [("%s%d=%s" % (kd, i, "⊤" if v else "⊥")) for kd, i, v in cons] or "none",
                                                   show(x)[:30], istar, subs))
                    break
            if bad:
                break
        out.append(inst("CM", key, VIOLATION if bad else OK, fn, None,
                        bad if bad else "Some(%s) ≡ the %d-element list under its guards (%d valuations)" % (show(x)[:30], n, cases)))
    if k < 4:
        raise CheckerError("CM4: only %d trimming returns recognised" % k)
    # completeness: the lists that *have* a smaller equivalent are trimmed (walk the CFG with the tests evaluated)
    none_bbs = {a[0] for a in te.aggs if isinstance(a[1], tuple) and a[1][0] == "agg" and a[1][3] == "None"}
    some_bbs = {a[0] for a in te.aggs if isinstance(a[1], tuple) and a[1][0] == "agg" and a[1][3] == "Some"}
    cfg = fn.cfg

    def val(c, n, P, S):
        c = strip(c)
        if mir.is_call(c, "is_empty"):
            return int(n == 0)
        if c[0] == "bin" and c[1] in ("Eq", "Ne", "Lt", "Le", "Gt", "Ge") and _is_len(c[2]) and strip(c[3])[0] == "const":
            kk = int(strip(c[3])[2])
            return int({"Eq": n == kk, "Ne": n != kk, "Lt": n < kk, "Le": n <= kk, "Gt": n > kk, "Ge": n >= kk}[c[1]])
        if c[0] == "call" and c[1].name in ("is_true", "is_false") and c[2]:
            e = elem(c[2][-1])
            if e and e[1] < n:
                v = (P if e[0] == "p" else S)[e[1]]
                return int(v == ("T" if c[1].name == "is_true" else "F"))
        return None

    def outcome(n, P, S):
        res = set()

        def go(b, seen, unk):
            if b in some_bbs:
                res.add("some")
                return
            if b in none_bbs:
                res.add("none?" if unk else "none")
                return
            t = fn.blocks[b]["term"]
            if t["k"] == "return":
                res.add("?")
                return
            if t["k"] == "switch":
                v = val(te.switch_term[b][0], n, P, S)
                if v is None:
                    nx = [x for _, x in t["targets"]] + [t["otherwise"]]
                    unk = True
                else:
                    tg = [x for vv, x in t["targets"] if int(vv) == v]
                    nx = [tg[0]] if tg else [t["otherwise"]]
            else:
                nx = list(cfg.succ[b])
            for s_ in nx:
                if s_ not in seen and fn.blocks[s_]["term"]["k"] != "unreachable":
                    go(s_, seen | {s_}, unk)
        go(0, {0}, False)
        return res
    errs = []
    unknown = False
    for s0 in ("T", "F", "x"):
        o_ = outcome(1, ["T"], [s0])
        unknown = unknown or "none?" in o_
        if "none" in o_:
            errs.append("a single-element list (its prime is ⊤ by the partition property) with sub %s is not trimmed to its sub"
                        % {"T": "⊤", "F": "⊥", "x": "s"}[s0])
            break
    for S in (["T", "F"], ["F", "T"]):
        o_ = outcome(2, ["x", "x"], S)
        unknown = unknown or "none?" in o_
        if "none" in o_:
            errs.append("a two-element list with subs (%s, %s) is not trimmed to the prime of the ⊤ sub" % tuple("⊤" if v == "T" else "⊥" for v in S))
    out.append(inst("CM", "%s:CM4:trim-complete" % fn.npath, VIOLATION if errs else (UNDECIDED if unknown else OK), fn, None,
                    "; ".join(errs) if errs else "single elements and (⊤,⊥)/(⊥,⊤) pairs are always trimmed"))
    return out
