"""WP — polarity / table correlation.

Tables that come in a positive and a negative copy (watch_list_pos|neg, contains_pos_lit|neg_lit,
pos_lits|neg_lits, and the local pos_lit|neg_lit builders) are selected by testing a literal's
polarity and indexed by a literal's label.  At every such access the literal that supplies the
index must be the literal whose polarity selected the table; insertions (push/insert) go into the
literal's own-polarity table; and all other accesses keyed by one literal in one function use one
side consistently.
"""
from collections import defaultdict
from . import mir
from .base import inst, OK, VIOLATION, UNDECIDED, strip, bool_arms
from .facts import CheckerError
from .mir import show

POS = {"watch_list_pos", "contains_pos_lit", "pos_lits", "pos_lit"}
NEG = {"watch_list_neg", "contains_neg_lit", "neg_lits", "neg_lit"}
MODULES = ("repr::unit_prop", "repr::cnf")


def table_sign(fn, t):
    t = strip(t)
    if not isinstance(t, tuple):
        return None
    nm = None
    if t[0] == "field":
        nm = t[2]
    elif t[0] == "upvar":
        nm = t[1]
    elif t[0] == "mutref":
        nm = fn.local_name(t[1])
    elif t[0] == "local":
        nm = fn.local_name(t[1])
    if nm in POS:
        return "pos"
    if nm in NEG:
        return "neg"
    return None


def index_literal(t):
    """idx = value(label(L)) as usize | value_usize(label(L))  ->  L"""
    t = strip(t)
    if mir.is_call(t, "value_usize") or mir.is_call(t, "value"):
        inner = strip(t[2][0])
        if mir.is_call(inner, "label"):
            return strip(inner[2][0])
    return None


def run(prog):
    out = []
    n = 0
    for fn in prog.lib_fns:
        if not fn.npath.startswith(MODULES) and not any(m in fn.npath for m in MODULES):
            continue
        if fn.name.startswith("test_"):
            continue
        te = fn.terms
        accesses = []
        for cs in te.calls:
            if cs.callee.name not in ("index", "index_mut") or not cs.args:
                continue
            tab = cs.args[0]
            sel = None   # (literal, polarity value 'true'/'false')
            sign = table_sign(fn, tab)
            if sign is None:
                ba = bool_arms(strip(tab))
                if ba and mir.is_call(ba[0], "polarity"):
                    sf, st = table_sign(fn, ba[1]), table_sign(fn, ba[2])
                    if sf and st and sf != st:
                        # gamma(polarity(L'); false -> T_f, true -> T_t)
                        side = "same" if st == "pos" else "opposite"
                        accesses.append((cs, strip(ba[0][2][0]), side, index_literal(cs.args[1]), "γ"))
                continue
            L = index_literal(cs.args[1])
            for c, val, _, d in reversed(te.facts_at(cs.bb)):
                if mir.is_call(c, "polarity"):
                    sel = (strip(c[2][0]), val != "0")
                    break
            if sel is None:
                accesses.append((cs, None, None, L, sign))
                continue
            side = "same" if (sign == "pos") == sel[1] else "opposite"
            accesses.append((cs, sel[0], side, L, sign))
        if not accesses:
            continue
        # insertion sites: result of the access is the receiver of push/insert
        ins_terms = set()
        for cs in te.calls:
            if cs.callee.name in ("push", "insert") and cs.args:
                ins_terms.add(repr(cs.args[0]))
        per_lit = defaultdict(set)
        seen_keys = defaultdict(int)
        for cs, Lsel, side, Lidx, sign in accesses:
            key = "%s:L%s" % (fn.npath, "")
            is_ins = repr(cs.term) in ins_terms
            tabname = show(cs.args[0])[-40:]
            ikey = "%s:%s[%s]%s" % (fn.npath, sign if sign != "γ" else "pos|neg",
                                    (te.name_of(Lidx, cs.bb) or (te.name_of(cs.args[1], cs.bb) and "idx=" + te.name_of(cs.args[1], cs.bb))
                                     or mir.stable(Lidx, fn)[:80]) if Lidx is not None else "?",
                                    ":insert" if is_ins else "")
            seen_keys[ikey] += 1
            if seen_keys[ikey] > 1:
                ikey += "#%d" % seen_keys[ikey]
            n += 1
            if Lsel is None or Lidx is None:
                out.append(inst("WP", ikey, UNDECIDED, fn, cs.line,
                                "table %s: selecting polarity test or indexing literal not recognised" % tabname))
                continue
            errs = []
            if Lsel != Lidx:
                errs.append("table is selected by the polarity of `%s` but indexed by the label of `%s`"
                            % (show(Lsel), show(Lidx)))
            elif is_ins and side != "same":
                errs.append("a clause is registered in the %s table under a literal of the other polarity" % sign)
            else:
                per_lit[repr(Lidx)].add((side, is_ins))
            out.append(inst("WP", ikey, VIOLATION if errs else OK, fn, cs.line,
                            "; ".join(errs) if errs else "%s-side access keyed and selected by `%s`" % (side, show(Lidx))))
        for lit, sides in per_lit.items():
            non_ins = {s for s, i in sides if not i}
            if len(non_ins) > 1:
                out.append(inst("WP", "%s:consistency" % (fn.npath,), VIOLATION, fn, None,
                                "reads keyed by one literal use both its own and the opposite table"))
    # WP2: a newly assigned literal changes the residual formula in exactly two ways — it satisfies the clauses
    # that contain it (own-polarity table) and shrinks the clauses that contain its negation (opposite table);
    # update_hash_and_sat_set must consult one table of each kind
    for fn in prog.find(name="update_hash_and_sat_set", self_adt="repr::unit_prop::SATSolver", unit="rsdd-lib"):
        sides = sorted(r["detail"].split("-side")[0] for r in out
                       if r["key"].startswith("WP:" + fn.npath + ":") and r["verdict"] == OK and "-side" in r["detail"])
        ok = sides == ["opposite", "same"]
        out.append(inst("WP", "%s:both-sides" % fn.npath, OK if ok else VIOLATION, fn, None,
                        "satisfied clauses come from the own-polarity table, shrunk clauses from the opposite one" if ok else
                        "the residual hash consults the tables %s: the clauses satisfied by a new literal (its own polarity) "
                        "and the clauses it shrinks (opposite polarity) are both needed, one pass over each" % sides))
    if n < 20:
        raise CheckerError("WP: only %d polar table accesses recognised (expected >= 20)" % n)
    return out
