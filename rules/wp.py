"""WP — polarity / table correlation.

Tables that come in a positive and a negative copy (watch_list_pos|neg, contains_pos_lit|neg_lit,
pos_lits|neg_lits, and the local pos_lit|neg_lit builders) are selected by testing a literal's
polarity and indexed by a literal's label.  At every such access the literal that supplies the
index must be the literal whose polarity selected the table; insertions (push/insert) go into the
literal's own-polarity table; and all other accesses keyed by one literal in one function use one
side consistently.
"""
from collections import defaultdict
from . import mir
from .base import inst, OK, VIOLATION, UNDECIDED, strip, bool_arms
from .facts import CheckerError
from .mir import show

POS = {"watch_list_pos", "contains_pos_lit", "pos_lits", "pos_lit"}
NEG = {"watch_list_neg", "contains_neg_lit", "neg_lits", "neg_lit"}
MODULES = ("repr::unit_prop", "repr::cnf")


def table_sign(fn, t):
    t = strip(t)
    if not isinstance(t, tuple):
        return None
    nm = None
    if t[0] == "field":
        nm = t[2]
    elif t[0] == "upvar":
        nm = t[1]
    elif t[0] == "mutref":
        nm = fn.local_name(t[1])
    elif t[0] == "local":
        nm = fn.local_name(t[1])
    if nm in POS:
        return "pos"
    if nm in NEG:
        return "neg"
    return None


def index_literal(t):
    """idx = value(label(L)) as usize | value_usize(label(L))  ->  L"""
    t = strip(t)
    if mir.is_call(t, "value_usize") or mir.is_call(t, "value"):
        inner = strip(t[2][0])
        if mir.is_call(inner, "label"):
            return strip(inner[2][0])
    return None


def polar_accessors(prog):
    """private accessors `fn occ(&self, var, polarity) -> &Row { &(if polarity { &pos } else { &neg })[var.value_usize()] }`:
    {fn npath: (fn, index of the polarity parameter, index of the label parameter, True if `true` selects the pos table)}"""
    acc = {}
    for fn in prog.lib_fns:
        if not any(m in fn.npath for m in MODULES) or fn.terms.ret is None or "{closure" in fn.npath:
            continue
        r = strip(fn.terms.ret)
        while isinstance(r, tuple) and r and r[0] in ("ref", "deref"):
            r = strip(r[1])
        if not (mir.is_call(r, "index") or mir.is_call(r, "index_mut")) or len(r[2]) != 2:
            continue
        ba = bool_arms(strip(r[2][0]))
        ix = strip(r[2][1])
        if not ba or strip(ba[0])[0] != "param":
            continue
        sf, st = table_sign(fn, ba[1]), table_sign(fn, ba[2])
        if not (sf and st and sf != st):
            continue
        lab = None
        if (mir.is_call(ix, "value_usize") or mir.is_call(ix, "value")) and strip(ix[2][0])[0] == "param":
            lab = strip(ix[2][0])[1]
        if lab is None:
            continue
        acc[fn.npath] = (fn, strip(ba[0])[1], lab, st == "pos")
    return acc


def run(prog):
    out = []
    n = 0
    accessors = polar_accessors(prog)
    for fn in prog.lib_fns:
        if not fn.npath.startswith(MODULES) and not any(m in fn.npath for m in MODULES):
            continue
        if fn.name.startswith("test_"):
            continue
        te = fn.terms
        accesses = []
        if fn.npath in accessors:
            continue        # checked at its call sites, where the literal is known
        for cs in te.calls:
            hs_ = [h for h in prog.resolve(cs.callee)] if (cs.callee.local or getattr(cs.callee, "res_local", False)) else []
            if len(hs_) == 1 and hs_[0].npath in accessors:
                _, kp, kl, true_is_pos = accessors[hs_[0].npath]
                if kp - 1 < len(cs.args) and kl - 1 < len(cs.args):
                    pa, la = strip(cs.args[kp - 1]), strip(cs.args[kl - 1])
                    inv = False
                    while pa[0] == "un" and pa[1] == "Not":
                        pa, inv = strip(pa[2]), not inv
                    if mir.is_call(pa, "polarity") and mir.is_call(la, "label"):
                        side = "same" if (true_is_pos != inv) else "opposite"
                        accesses.append((cs, strip(pa[2][0]), side, strip(la[2][0]), "γ"))
                    else:
                        accesses.append((cs, None, None, None, "γ"))
                continue
            if cs.callee.name not in ("index", "index_mut") or not cs.args:
                continue
            tab = cs.args[0]
            sel = None   # (literal, polarity value 'true'/'false')
            sign = table_sign(fn, tab)
            if sign is None:
                ba = bool_arms(strip(tab))
                if ba and mir.is_call(ba[0], "polarity"):
                    sf, st = table_sign(fn, ba[1]), table_sign(fn, ba[2])
                    if sf and st and sf != st:
                        # gamma(polarity(L'); false -> T_f, true -> T_t)
                        side = "same" if st == "pos" else "opposite"
                        accesses.append((cs, strip(ba[0][2][0]), side, index_literal(cs.args[1]), "γ"))
                continue
            L = index_literal(cs.args[1])
            for c, val, _, d in reversed(te.facts_at(cs.bb)):
                if mir.is_call(c, "polarity"):
                    sel = (strip(c[2][0]), val != "0")
                    break
            if sel is None:
                accesses.append((cs, None, None, L, sign))
                continue
            side = "same" if (sign == "pos") == sel[1] else "opposite"
            accesses.append((cs, sel[0], side, L, sign))
        if not accesses:
            continue
        # insertion sites: result of the access is the receiver of push/insert
        ins_terms = set()
        for cs in te.calls:
            if cs.callee.name in ("push", "insert") and cs.args:
                ins_terms.add(repr(cs.args[0]))
        per_lit = defaultdict(set)
        seen_keys = defaultdict(int)
        for cs, Lsel, side, Lidx, sign in accesses:
            key = "%s:L%s" % (fn.npath, "")
            is_ins = repr(cs.term) in ins_terms
            tabname = show(cs.args[0])[-40:]
            ikey = "%s:%s[%s]%s" % (fn.npath, sign if sign != "γ" else "pos|neg",
                                    (te.name_of(Lidx, cs.bb) or (te.name_of(cs.args[1], cs.bb) and "idx=" + te.name_of(cs.args[1], cs.bb))
                                     or mir.stable(Lidx, fn)[:80]) if Lidx is not None else "?",
                                    ":insert" if is_ins else "")
            seen_keys[ikey] += 1
            if seen_keys[ikey] > 1:
                ikey += "#%d" % seen_keys[ikey]
            n += 1
            if Lsel is None or Lidx is None:
                out.append(inst("WP", ikey, UNDECIDED, fn, cs.line,
                                "table %s: selecting polarity test or indexing literal not recognised" % tabname))
                continue
            errs = []
            if Lsel != Lidx:
                errs.append("table is selected by the polarity of `%s` but indexed by the label of `%s`"
                            % (show(Lsel), show(Lidx)))
            elif is_ins and side != "same":
                errs.append("a clause is registered in the %s table under a literal of the other polarity" % sign)
            else:
                per_lit[repr(Lidx)].add((side, is_ins))
            out.append(inst("WP", ikey, VIOLATION if errs else OK, fn, cs.line,
                            "; ".join(errs) if errs else "%s-side access keyed and selected by `%s`" % (side, show(Lidx))))
        for lit, sides in per_lit.items():
            non_ins = {s for s, i in sides if not i}
            if len(non_ins) > 1:
                out.append(inst("WP", "%s:consistency" % (fn.npath,), VIOLATION, fn, None,
                                "reads keyed by one literal use both its own and the opposite table"))
    # WP2: a newly assigned literal changes the residual formula in exactly two ways — it satisfies the clauses
    # that contain it (own-polarity table) and shrinks the clauses that contain its negation (opposite table);
    # update_hash_and_sat_set must consult one table of each kind
    for fn in prog.find(name="update_hash_and_sat_set", self_adt="repr::unit_prop::SATSolver", unit="rsdd-lib"):
        sides = sorted(r["detail"].split("-side")[0] for r in out
                       if r["key"].startswith("WP:" + fn.npath + ":") and r["verdict"] == OK and "-side" in r["detail"])
        ok = sides == ["opposite", "same"]
        out.append(inst("WP", "%s:both-sides" % fn.npath, OK if ok else VIOLATION, fn, None,
                        "satisfied clauses come from the own-polarity table, shrunk clauses from the opposite one" if ok else
                        "the residual hash consults the tables %s: the clauses satisfied by a new literal (its own polarity) "
                        "and the clauses it shrinks (opposite polarity) are both needed, one pass over each" % sides))
    out += wp3(prog)
    if n < 14:
        raise CheckerError("WP: only %d polar table accesses recognised (expected >= 14)" % n)
    return out


def wp3(prog):
    """WP3  update_hash_and_sat_set advances the residual hash from one base state S to `new_model`.  Every use of
    the base must be the same S: the hash and the satisfied-set accumulators are seeded from S, the newly assigned
    literals are `new_model.difference(S.model)`, and a literal of a newly satisfied clause counts as 'still in the
    residual clause' iff it is unset *in S* — every model query that guards a hash update has S.model as receiver
    (new_model has all of this step's literals set, so asking it would leave their primes out)."""
    out = []
    for fn in prog.find(name="update_hash_and_sat_set", self_adt="repr::unit_prop::SATSolver", unit="rsdd-lib"):
        te = fn.terms
        base = None
        errs = []

        def is_base(t, fld):
            t = strip(t)
            return isinstance(t, tuple) and t[0] == "field" and t[2] == fld and mir.is_call(strip(t[1]), "top_state")
        def unclone(v):
            v = strip(v)
            while mir.is_call(v, "clone"):
                v = strip(v[2][0])
            return v
        inits = [unclone(v) for (h, l), v in te.mu_init.items() if strip(v)[0] != "mu"]
        # the accumulator multiplied in the hash updates
        hacc = set()
        for cs in te.calls:
            if cs.callee.name in ("wrapping_mul", "mul"):
                for x in mir.subterms(cs.args[0]):
                    if x[0] == "mu":
                        hacc.add((x[1], x[2]))
        hseeds = []
        for (h, l) in hacc:
            v = te.mu_init.get((h, l))
            while v is not None and strip(v)[0] == "mu":
                v = te.mu_init.get((strip(v)[1], strip(v)[2]))
            if v is not None:
                hseeds.append(unclone(v))
        if not hseeds or not all(is_base(v, "hash") for v in hseeds):
            errs.append("the hash accumulator is seeded with %s, not with the base state's hash" % [show(v)[:40] for v in hseeds])
        if not any(is_base(v, "sat_clauses") for v in inits):
            errs.append("no accumulator is seeded with the base state's satisfied set")
        diffs = [cs for cs in te.calls if cs.callee.name == "difference" and "PartialModel" in cs.callee.key()]
        if not diffs:
            errs.append("no difference between the new model and the base model")
        for cs in diffs:
            if strip(cs.args[0]) != ("param", 2) or not is_base(cs.args[1], "model"):
                errs.append("line %d: newly assigned literals are %s \\ %s, expected new_model \\ base.model"
                            % (cs.line, show(cs.args[0])[:30], show(cs.args[1])[:30]))
        nq = 0
        for cs in te.calls:
            if cs.callee.name not in ("wrapping_mul", "mul", "wrapping_div", "div"):
                continue
            for c, val, _, _ in te.facts_at(cs.bb):
                c = strip(c)
                if c[0] == "call" and "PartialModel" in c[1].key() and c[1].name in ("is_set", "get", "lit_implied", "lit_neg_implied"):
                    nq += 1
                    if not is_base(c[2][0], "model"):
                        errs.append("line %d: the hash update is guarded by %s: the model asked is not the base state's model, so "
                                    "literals assigned in this very step are treated as already accounted for"
                                    % (cs.line, show(c)[:70]))
        # the guard may be the predicate of a `filter` in front of a `fold` that multiplies: look into the closures
        for k in [g for g in prog.lib_fns if g.npath.startswith(fn.npath + "::{closure")]:
            caps = {}
            for a in te.aggs:
                t_ = a[1]
                if isinstance(t_, tuple) and t_[0] == "agg" and t_[1] == "closure" and t_[2] == k.npath and len(t_) > 5 and t_[5]:
                    caps = dict(zip(t_[5], t_[4]))
            for cs in k.terms.calls:
                if "PartialModel" in (cs.callee.key() or "") and cs.callee.name in ("is_set", "get", "lit_implied", "lit_neg_implied") and cs.args:
                    from . import canon
                    recv = canon.subst(cs.args[0], None, caps)
                    nq += 1
                    if not is_base(recv, "model"):
                        errs.append("line %d: the hash update is guarded by %s: the model asked is not the base state's model, so "
                                    "literals assigned in this very step are treated as already accounted for"
                                    % (cs.line, show(recv)[:70]))
        if nq == 0:
            errs.append("?no model query guards the hash update of a newly satisfied clause")
        out.append(inst("WP", "%s:WP3:one-base-state" % fn.npath, VIOLATION if errs else OK, fn, None,
                        "; ".join(errs) if errs else "hash, satisfied set, difference and the 'still unassigned' test all refer to top_state()"))
    return out
