"""PE — a path evaluator for small pure functions over an abstract ordering.

The lattice operations and the order of the two-component semirings (partial_cmp, join, meet, choose) are
functions of the *ordering* of the components of their operands only.  For each of the finitely many orderings
({<, =, >} per component) the evaluator walks the function's control-flow graph: every branch condition is a
comparison of components (or of Ordering / Option values built from such comparisons), so exactly one successor is
taken; joins are resolved by the path walked; the result is the operand component (or Ordering) each output
component equals.  Control-flow shape is irrelevant: if/else chains, early returns, `match` on a tuple of
partial_cmp results, the `?` operator and calls to private helpers of the same type evaluate alike.  Anything the
evaluator does not model raises NotEval and the instance is undecided.
"""
import itertools
from . import mir, canon
from .base import strip, bool_arms
from .mir import show


class NotEval(Exception):
    pass

ORD = {"Less": -1, "Equal": 0, "Greater": 1}

class PathEval:
    """run a small pure function over an abstract ordering of the components of its two operands"""
    def __init__(self, prog, fn, rel, fields, env=None, adt=None, depth=0):
        self.prog, self.fn, self.te, self.rel, self.fields = prog, fn, fn.terms, rel, fields
        self.env, self.adt, self.depth = env, adt, depth
        self.path = []

    def run(self):
        b, steps = 0, 0
        fn = self.fn
        while True:
            steps += 1
            if steps > 400:
                raise NotEval("no termination")
            self.path.append(b)
            t = fn.blocks[b]["term"]
            k = t["k"]
            if k == "return":
                return self.ev(self.te.ret)
            if k == "switch":
                c, vm = self.te.switch_term[b]
                v = self.ev(c, discr=True)
                b = self.pick(t, vm, v)
                continue
            succ = fn.cfg.succ[b]
            if len(succ) != 1:
                raise NotEval("block %d (%s) has %d successors" % (b, k, len(succ)))
            b = succ[0]

    def pick(self, t, vm, v):
        # v: bool | variant name | int
        for lab, s in t["targets"]:
            if isinstance(v, bool):
                if (lab != "0") == v and lab in ("0", "1"):
                    return s
            elif vm and vm.get(lab) == v:
                return s
            elif not vm and str(v) == str(lab):
                return s
        return t["otherwise"]

    def variant(self, v):
        if isinstance(v, tuple):
            if v[0] == "some": return "Some"
            if v[0] == "none": return "None"
            if v[0] == "ord": return {-1: "Less", 0: "Equal", 1: "Greater"}[v[1]]
            if v[0] == "cf": return v[1]
            if v[0] == "enumv": return v[1]
        raise NotEval("variant of %r" % (v,))

    def comp_sign(self, x, y):
        if not (isinstance(x, tuple) and isinstance(y, tuple) and x[0] == "c" and y[0] == "c" and x[2] == y[2]):
            raise NotEval("comparison of unrelated values %r %r" % (x, y))
        if x[1] == y[1] or "eq" in (x[1], y[1]):
            return 0
        s = self.rel[x[2]]
        return s if x[1] == "a" else -s

    def ev(self, t, discr=False):
        t = strip(t)
        while isinstance(t, tuple) and t and t[0] in ("deref", "ref"):
            t = strip(t[1])
        if not isinstance(t, tuple) or not t:
            raise NotEval("term %r" % (t,))
        k = t[0]
        if k == "discr":
            return self.variant(self.ev(t[1]))
        if k == "param":
            if self.env is not None:
                if t[1] in self.env:
                    return self.env[t[1]]
                raise NotEval("parameter %d" % t[1])
            side = "a" if t[1] == 1 else "b"
            return ("rec", tuple(("c", side, f) for f in self.fields))
        if k == "field":
            inner = t[1]
            if isinstance(inner, tuple) and inner and inner[0] == "as":
                v = self.ev(inner[1])
                if v[0] == "some" and inner[2] == "Some": return v[1]
                if v[0] == "cf" and inner[2] == v[1]: return v[2]
                if v[0] == "enumv" and inner[2] == v[1]: return ("payload", v[2], v[1], t[2])
                raise NotEval("payload %s of %r" % (inner[2], v))
            v = self.ev(inner)
            if v[0] == "rec":
                if t[2] in self.fields: return v[1][self.fields.index(t[2])]
                if str(t[2]).isdigit() and int(t[2]) < len(v[1]): return v[1][int(t[2])]
            if v[0] == "tuple" and str(t[2]).isdigit(): return v[1][int(t[2])]
            raise NotEval("field %s of %r" % (t[2], v))
        if k == "rawptr" and len(t) > 1:
            return self.ev(t[1])
        if k == "const":
            if str(t[2]) in ("0", "false"): return False
            if str(t[2]) in ("1", "true"): return True
            raise NotEval("const %r" % (t,))
        if k == "un" and t[1] == "Not":
            return not self.ev(t[2])
        if k == "bin" and t[1] in ("Lt", "Le", "Gt", "Ge", "Eq", "Ne"):
            x, y = self.ev(t[2]), self.ev(t[3])
            if isinstance(x, tuple) and x[0] == "ord" and isinstance(y, tuple) and y[0] == "ord":
                s = (x[1] > y[1]) - (x[1] < y[1])
            elif isinstance(x, bool) and isinstance(y, bool):
                s = (x > y) - (x < y)
            elif isinstance(x, tuple) and isinstance(y, tuple) and x[0] == "disc" and y[0] == "disc":
                s = 0 if x == y else 1
            else:
                s = self.comp_sign(x, y)
            return {"Lt": s < 0, "Le": s <= 0, "Gt": s > 0, "Ge": s >= 0, "Eq": s == 0, "Ne": s != 0}[t[1]]
        if k == "gamma":
            c = self.ev(t[1], discr=True)
            vm = self.te._discr_variants.get(t[1]) or {}
            for lab, v in t[2]:
                if isinstance(c, bool):
                    if isinstance(lab, str) and lab in ("0", "1") and (lab == "1") == c: return self.ev(v)
                    if isinstance(lab, tuple) and lab[0] == "not" and ((("0" in lab[1]) and c) or (("1" in lab[1]) and not c)): return self.ev(v)
                else:
                    if isinstance(lab, str) and vm.get(lab) == c: return self.ev(v)
            for lab, v in t[2]:
                if isinstance(lab, tuple) and lab[0] == "not" and not isinstance(c, bool) and all(vm.get(x) != c for x in lab[1]):
                    return self.ev(v)
                if isinstance(lab, tuple) and lab[0] == "in" and not isinstance(c, bool) and any(vm.get(x) == c for x in lab[1]):
                    return self.ev(v)
            raise NotEval("no arm of %s for %r" % (show(t)[:60], c))
        if k == "phi":
            best = None
            for pb, v in t[2]:
                pbn = int(str(pb).replace("bb", "")) if not isinstance(pb, int) else pb
                if pbn in self.path:
                    i = len(self.path) - 1 - self.path[::-1].index(pbn)
                    if best is None or i > best[0]:
                        best = (i, v)
            if best is None:
                raise NotEval("join %s not on the path" % show(t)[:40])
            return self.ev(best[1])
        if k == "agg":
            if t[1] == "adt":
                if t[3] == "Some": return ("some", self.ev(t[4][0]))
                if t[3] == "None": return ("none",)
                if t[3] in ORD: return ("ord", ORD[t[3]])
                if t[3] in ("Continue", "Break"): return ("cf", t[3], self.ev(t[4][0]) if t[4] else None)
                return ("rec", tuple(self.ev(o) for o in t[4]))
            if t[1] == "tuple":
                return ("tuple", tuple(self.ev(o) for o in t[4]))
        if k == "fnref":
            return ("fnref", t[1])
        if k == "call":
            nm, a = t[1].name, t[2]
            if nm in ("call_once", "call_mut", "call") and len(a) == 2:
                # an indirect call of a function item handed in as an argument (`zip_with(arg, f64::max)`): apply it
                try:
                    fv = self.ev(a[0])
                except NotEval:
                    fv = None
                args = strip(a[1])
                if isinstance(fv, tuple) and fv[0] == "fnref" and isinstance(args, tuple) and args[:2] == ("agg", "tuple"):
                    return self.ev(("call", fv[1], tuple(args[4]), ()))
            if nm in ("eq", "ne") and len(a) == 2 and (t[1].key() or "").startswith("std::ptr::"):
                if nm == "ne":
                    raise NotEval("ptr::ne")
                return ("ptreq", self.ev(a[0]), self.ev(a[1]))
            if nm == "discriminant" and len(a) == 1:
                return ("disc", self.variant(self.ev(a[0])))
            if nm in ("partial_cmp", "cmp") and len(a) == 2:
                x, y = self.ev(a[0]), self.ev(a[1])
                if isinstance(x, tuple) and isinstance(y, tuple) and x[0] == "c" and y[0] == "c":
                    o = ("ord", self.comp_sign(x, y))
                    return ("some", o) if nm == "partial_cmp" else o
                # whole operands: the type's own order, evaluated below like any helper of the type
            if nm in ("max", "min") and len(a) == 2:
                x, y = self.ev(a[0]), self.ev(a[1])
                s = self.comp_sign(x, y)
                if s == 0: return ("c", "eq", x[2])
                big, small = (x, y) if s > 0 else (y, x)
                return big if nm == "max" else small
            if nm == "branch" and len(a) == 1:
                v = self.ev(a[0])
                if v[0] == "some": return ("cf", "Continue", v[1])
                if v[0] == "none": return ("cf", "Break", ("none",))
            if nm == "from_residual":
                return ("none",)
            if nm in ("eq", "ne") and len(a) == 2:
                x, y = self.ev(a[0]), self.ev(a[1])
                r = (x == y)
                return r if nm == "eq" else not r
            if nm in ("clone", "copied", "cloned", "into", "from") and a:
                return self.ev(a[0])
            if nm in ("is_some", "is_none") and a:
                v = self.ev(a[0])
                return (v[0] == "some") == (nm == "is_some")
            # a private helper of the same type: evaluate its body with the operands bound to its parameters
            c = t[1]
            if self.depth < 3 and (c.local or getattr(c, "res_local", False)):
                hs = [h for h in self.prog.resolve(c) if "{closure" not in h.npath and
                      (self.adt is None or h.impl_self == self.adt)]
                if len(hs) == 1 and hs[0] is not self.fn:
                    env = {i + 1: self.ev(x) for i, x in enumerate(a)}
                    return PathEval(self.prog, hs[0], self.rel, self.fields, env=env, adt=self.adt, depth=self.depth + 1).run()
        raise NotEval("term %s" % show(t)[:60])

