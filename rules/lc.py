"""LC — a literal is treated according to its status under the partial model, not its polarity.

Several loops look a literal's variable up in a PartialModel (`m.get(lit.label())`) and then act on
the clause: BddBuilder::compile_cnf_with_assignments, UnitPropagate::decide (the "is this clause already
satisfied" scan), Cnf::is_sat_partial.  The status of a literal is one of

    satisfied  (assigned, value == polarity)   falsified  (assigned, value != polarity)   unassigned

and what the loop body does may depend on the status only.  The rule interprets the loop body from the
lookup onward over the abstract pair (assignment a ∈ {None, Some(false), Some(true)}, polarity p ∈ {false,true}),
evaluating the tests on `get(..)`, its payload and `polarity()` and exploring every other branch, and
collects the effect signature of each case (calls made, flags set, whether the literal loop is left):

  * the two satisfied cases (a = Some(p)) have the same signature, likewise the two falsified and the
    two unassigned cases;
  * the satisfied signature sets the "clause is satisfied" marker (a local set to true / to the true
    constant); the falsified and unassigned signatures do not.
"""
from . import mir
from .base import inst, OK, VIOLATION, UNDECIDED, strip
from .facts import CheckerError
from .mir import show

SITES = [("compile_cnf_with_assignments", "builder::bdd::builder::BddBuilder"),
         ("decide", "repr::unit_prop::UnitPropagate"),
         ("is_sat_partial", "repr::cnf::Cnf")]
PURE = {"label", "polarity", "get", "clone", "deref", "next", "iter", "into_iter", "index", "as_ref", "borrow", "eq", "ne"}


class Und(Exception):
    pass


def walk_cases(fn, start, header, valfn, cases):
    """effect signatures of the loop body from `start`, one per abstract case; valfn(cond, case) evaluates a branch test"""
    te, cfg = fn.terms, fn.cfg
    body = cfg.loop_headers[header]
    outer = [h for h, b in cfg.loop_headers.items() if header in b and h != header]

    def effects_of(b):
        eff = []
        for st in fn.blocks[b]["stmts"]:
            if st["k"] == "assign" and not st["lhs"]["proj"] and fn.local_name(st["lhs"]["l"]):
                rv = st["rv"]
                if rv["k"] == "use" and rv["op"]["k"] == "const" and rv["op"].get("ty") == "bool":
                    eff.append(("set", fn.local_name(st["lhs"]["l"]), rv["op"].get("val")))
        t = fn.blocks[b]["term"]
        if t["k"] == "call":
            nm = ((t.get("fn") or {}).get("def") or "").split("::")[-1]
            if nm not in PURE:
                dn = fn.local_name(t["dest"]["l"]) if not t["dest"]["proj"] else None
                eff.append(("call", nm, dn))
        return eff

    def sig(case):
        res = set()

        def go(b, eff, seen, depth):
            if depth > 60 or len(res) > 64:
                raise Und("path explosion")
            eff = eff + effects_of(b)
            t = fn.blocks[b]["term"]
            if t["k"] == "return":
                res.add((tuple(eff), "return"))
                return
            if t["k"] == "switch":
                v = valfn(te.switch_term[b][0], case)
                if v is not None:
                    tg = [x for vv, x in t["targets"] if int(vv) == v]
                    nxts = [tg[0]] if tg else [t["otherwise"]]
                else:
                    nxts = [x for _, x in t["targets"]] + [t["otherwise"]]
            else:
                nxts = list(cfg.succ[b])
            for s_ in nxts:
                if fn.blocks[s_]["term"]["k"] == "unreachable":
                    continue
                if s_ == header:
                    res.add((tuple(eff), "next-literal"))
                elif s_ in outer:
                    res.add((tuple(eff), "next-clause"))
                elif s_ not in body:
                    e2, x, n = list(eff), s_, 0
                    end = "leave-loop"
                    while n < 12:
                        e2 += effects_of(x)
                        succ = [y for y in cfg.succ[x] if fn.blocks[y]["term"]["k"] != "unreachable"]
                        if len(succ) == 1 and succ[0] in outer:
                            end = "next-clause"
                            break
                        if len(succ) != 1 or len(cfg.pred[succ[0]]) != 1 or fn.blocks[x]["term"]["k"] == "switch":
                            break
                        x = succ[0]
                        n += 1
                    res.add((tuple(e2), end))
                elif s_ in seen:
                    continue
                else:
                    go(s_, eff, seen | {s_}, depth + 1)
        go(start, [], {start}, 0)
        return frozenset(res)
    return {c: sig(c) for c in cases}


def pp(x):
    return sorted((" ".join("%s:%s" % (e[0], e[1]) for e in effs) or "nothing") + " → " + end for effs, end in x)


def total_assignment_site(prog):
    """Cnf::eval: the literal's variable is looked up in a total assignment (a slice of bool)"""
    fn = prog.find1(name="eval", self_adt="repr::cnf::Cnf", unit="rsdd-lib")
    te, cfg = fn.terms, fn.cfg
    idx = [cs for cs in te.calls if cs.callee.name == "index" and len(cs.args) == 2 and strip(cs.args[0]) == ("param", 2)
           and "label(" in show(cs.args[1]) and "next(" in show(cs.args[1])]
    key = "%s:literal-status" % fn.npath
    if len(idx) != 1:
        return predicate_form(prog, fn, total=True)
    g = idx[0]
    loops = sorted([h for h, body in cfg.loop_headers.items() if g.bb in body], key=lambda h: len(cfg.loop_headers[h]))
    header = loops[0]

    def valfn(c, case):
        a, p = case
        c = strip(c)
        if mir.is_call(c, "polarity"):
            return p
        if mir.is_call(c, "index") and strip(c[2][0]) == ("param", 2):
            return a
        if c[0] == "deref":
            return valfn(c[1], case)
        if c[0] == "bin" and c[1] in ("Eq", "Ne"):
            x, y = valfn(c[2], case), valfn(c[3], case)
            if x is None or y is None:
                return None
            return int((x == y) == (c[1] == "Eq"))
        if c[0] == "un" and c[1] == "Not":
            x = valfn(c[2], case)
            return None if x is None else 1 - x
        return None
    try:
        S = walk_cases(fn, fn.blocks[g.bb]["term"]["target"], header, valfn, [(a, p) for a in (0, 1) for p in (0, 1)])
    except Und as e:
        return inst("LC", key, UNDECIDED, fn, g.line, str(e))
    errs = []
    if S[(0, 0)] != S[(1, 1)]:
        errs.append("a true literal is treated differently by polarity: ¬x under x=false does %s, x under x=true does %s" % (pp(S[(0, 0)]), pp(S[(1, 1)])))
    if S[(0, 1)] != S[(1, 0)]:
        errs.append("a false literal is treated differently by polarity")
    marks = lambda x: any(any(e[0] == "set" and e[2] == "1" for e in effs) for effs, _ in x)
    if not errs and not marks(S[(1, 1)]):
        errs.append("a true literal does not mark its clause as satisfied (does %s)" % pp(S[(1, 1)]))
    if not errs and marks(S[(0, 1)]):
        errs.append("a false literal marks its clause as satisfied")
    return inst("LC", key, VIOLATION if errs else OK, fn, g.line,
                errs[0] if errs else "true literal → %s; false literal → %s" % (pp(S[(1, 1)]), pp(S[(0, 1)])))


def conditioning_site(prog):
    """Cnf::condition(lit): a clause literal l is compared with the conditioning literal: same literal → the clause is
    dropped; complementary literal → l is dropped; any other literal → kept"""
    fn = prog.find1(name="condition", self_adt="repr::cnf::Cnf", unit="rsdd-lib")
    te, cfg = fn.terms, fn.cfg
    key = "%s:literal-status" % fn.npath
    labs = [cs for cs in te.calls if cs.callee.name == "label" and "next(" in show(cs.args[0])]
    if not labs:
        return conditioning_chain_form(prog, fn, key)
    g = min(labs, key=lambda c: cfg.rpo_index[c.bb])
    loops = sorted([h for h, body in cfg.loop_headers.items() if g.bb in body], key=lambda h: len(cfg.loop_headers[h]))
    header = loops[0]
    # start at the first block of the loop body: the Some edge of the iterator
    sw = fn.blocks[header]["term"]["target"]
    start = [t for v, t in fn.blocks[sw]["term"]["targets"] if v == "1"][0]

    def side(t):
        s_ = show(strip(t))
        return "l" if "next(" in s_ else ("lit" if "arg2" in s_ else None)

    def valfn(c, case):
        same, lp, p = case
        c = strip(c)
        if (c[0] == "bin" and c[1] in ("Eq", "Ne")) or (c[0] == "call" and c[1].name in ("eq", "ne") and len(c[2]) == 2):
            a, b = (c[2], c[3]) if c[0] == "bin" else (c[2][0], c[2][1])
            eq = (c[1] == "Eq") if c[0] == "bin" else (c[1].name == "eq")
            sa, sb = strip(a), strip(b)
            if mir.is_call(sa, "label") and mir.is_call(sb, "label") and {side(sa), side(sb)} == {"l", "lit"}:
                return int(bool(same) == eq)
            if mir.is_call(sa, "polarity") and mir.is_call(sb, "polarity") and {side(sa), side(sb)} == {"l", "lit"}:
                return int((lp == p) == eq)
            if {side(sa), side(sb)} == {"l", "lit"} and "label" not in show(sa) and "polarity" not in show(sa):
                # whole-literal comparison
                return int((bool(same) and lp == p) == eq)
        if c[0] == "un" and c[1] == "Not":
            x = valfn(c[2], case)
            return None if x is None else 1 - x
        return None
    cases = [(sm, lp, p) for sm in (0, 1) for lp in (0, 1) for p in (0, 1)]
    try:
        S = walk_cases(fn, start, header, valfn, cases)
    except Und as e:
        return inst("LC", key, UNDECIDED, fn, g.line, str(e))
    errs = []
    same_lit = {S[(1, 0, 0)], S[(1, 1, 1)]}
    compl = {S[(1, 0, 1)], S[(1, 1, 0)]}
    other = {S[(0, a, b)] for a in (0, 1) for b in (0, 1)}
    pushes = lambda x: any(any(e[0] == "call" and e[1] == "push" for e in effs) for effs, _ in x)
    ends = lambda x: {end for _, end in x}
    if len(same_lit) != 1 or len(compl) != 1 or len(other) != 1:
        errs.append("the treatment of a clause literal depends on more than its relation to the conditioning literal "
                    "(same: %s, complementary: %s, other: %s)" % ([pp(x) for x in same_lit], [pp(x) for x in compl], [pp(x) for x in other]))
    else:
        sl, cl, ot = same_lit.pop(), compl.pop(), other.pop()
        flagged = any(any(e[0] == "set" for e in effs) for effs, _ in sl)
        if flagged and not pushes(sl) and ends(sl) <= {"leave-loop", "next-clause"} and not pushes(cl) and pushes(ot):
            return inst("LC", key, UNDECIDED, fn, g.line, "the satisfied case sets a flag and leaves the literal loop; whether the flag "
                        "suppresses the clause is outside this rule (same: %s)" % pp(sl))
        if pushes(sl) or ends(sl) != {"next-clause"}:
            errs.append("a clause containing the conditioning literal is not dropped (does %s)" % pp(sl))
        if pushes(cl) or ends(cl) != {"next-literal"}:
            errs.append("the complement of the conditioning literal is not simply removed from its clause (does %s)" % pp(cl))
        if not pushes(ot) or ends(ot) != {"next-literal"}:
            errs.append("a literal on another variable is not kept (does %s)" % pp(ot))
    return inst("LC", key, VIOLATION if errs else OK, fn, g.line,
                errs[0] if errs else "same literal → clause dropped; complementary → literal dropped; other → kept")


def conditioning_chain_form(prog, fn, key):
    """Cnf::condition written as an iterator pipeline: clauses.filter(|c| !c.any(SAME)).map(|c| c.filter(KEEP).collect()).
    The two literal predicates are *evaluated* over (same variable, polarity of l, polarity of lit): SAME must hold exactly
    for the conditioning literal itself; KEEP must hold for every literal on another variable and fail for the
    complement (its value on the conditioning literal itself is irrelevant: such clauses are gone)."""
    from . import canon
    CL, LIT = ("sym", "clause"), ("sym", "l")
    und = lambda why: inst("LC", key, UNDECIDED, fn, None, "? " + why)

    def peel(t):
        t = strip(t)
        while isinstance(t, tuple) and t and (t[0] in ("ref", "deref") or
                (t[0] == "call" and t[1].name in ("collect", "copied", "cloned", "deref", "new", "into_iter", "iter", "to_vec") and t[2])):
            t = strip(t[1] if t[0] != "call" else t[2][0])
        return t
    r = peel(fn.terms.ret)
    if not (mir.is_call(r, "map") and len(r[2]) == 2):
        return und("Cnf::condition compares no clause literal in a loop and is not a filter/map pipeline")
    flt, M = peel(r[2][0]), r[2][1]
    if not (mir.is_call(flt, "filter") and len(flt[2]) == 2 and "clauses" in show(flt[2][0])):
        return und("the clause pipeline does not start with a filter over the clause list")
    F = flt[2][1]
    def apply(clo, arg):
        # like canon.apply_closure, but the iterator local of `c.iter().any(..)` (a `&mut` temporary) may stay in the term
        g, c = canon.closure_fn(prog, clo)
        if g is None or g.terms.ret is None:
            return None
        names = c[5] if len(c) > 5 else ()
        return canon.subst(g.terms.ret, {2: arg}, dict(zip(names, c[4])))
    fb = apply(F, CL)
    mb = apply(M, CL)
    if fb is None or mb is None:
        return und("pipeline closures not readable")
    fb, neg = strip(fb), False
    while isinstance(fb, tuple) and fb and fb[0] == "un" and fb[1] == "Not":
        fb, neg = strip(fb[2]), not neg
    if not (fb[0] == "call" and fb[1].name in ("any", "all") and len(fb[2]) == 2):
        return und("the clause filter is not any()/all() over the clause's literals")
    # clause kept iff  neg ^ any(A)   resp.  neg ^ all(A')
    quant = fb[1].name
    A = apply(fb[2][1], LIT)
    mb = peel(mb)
    if not (mir.is_call(mb, "filter") and len(mb[2]) == 2):
        return und("the per-clause map is not a filter over the clause's literals")
    Bt = apply(mb[2][1], LIT)
    if A is None or Bt is None:
        return und("literal predicates not readable")

    def side(t):
        subs = list(mir.subterms(t)) + [strip(t)]
        if LIT in subs:
            return "l"
        if ("param", 2) in subs:
            return "lit"
        return None

    def bval(c, case):
        same, lp, p = case
        c = strip(c)
        while isinstance(c, tuple) and c and c[0] in ("ref", "deref"):
            c = strip(c[1])
        if c[0] == "const":
            return int(str(c[2]) in ("1", "true"))
        if c[0] == "un" and c[1] == "Not":
            return 1 - bval(c[2], case)
        if (c[0] == "bin" and c[1] in ("Eq", "Ne")) or (c[0] == "call" and c[1].name in ("eq", "ne") and len(c[2]) == 2):
            a, b = (c[2], c[3]) if c[0] == "bin" else (c[2][0], c[2][1])
            eq = (c[1] == "Eq") if c[0] == "bin" else (c[1].name == "eq")
            sa, sb = strip(a), strip(b)
            while sa[0] in ("ref", "deref"): sa = strip(sa[1])
            while sb[0] in ("ref", "deref"): sb = strip(sb[1])
            if {side(sa), side(sb)} == {"l", "lit"}:
                if mir.is_call(sa, "label") and mir.is_call(sb, "label"):
                    return int(bool(same) == eq)
                if mir.is_call(sa, "polarity") and mir.is_call(sb, "polarity"):
                    return int((lp == p) == eq)
                if sa in (LIT, ("param", 2)) and sb in (LIT, ("param", 2)):
                    return int((bool(same) and lp == p) == eq)
            raise Und("comparison %s" % show(c)[:60])
        if c[0] == "bin" and c[1] in ("BitAnd", "BitOr"):
            x, y = bval(c[2], case), bval(c[3], case)
            return (x & y) if c[1] == "BitAnd" else (x | y)
        if c[0] == "gamma":
            v = bval(c[1], case)
            for lab, t in c[2]:
                if isinstance(lab, str) and lab in ("0", "1") and int(lab) == v:
                    return bval(t, case)
            for lab, t in c[2]:
                if isinstance(lab, tuple) and lab[0] == "not" and str(v) not in lab[1]:
                    return bval(t, case)
            raise Und("choice %s" % show(c)[:60])
        raise Und("term %s" % show(c)[:60])
    cases = [(sm, lp, p) for sm in (0, 1) for lp in (0, 1) for p in (0, 1)]
    errs = []
    try:
        for case in cases:
            same, lp, p = case
            a = bval(A, case)
            # the clause is dropped when: any form -> neg and some literal has A; all form -> !(neg ^ all A') i.e. handled via A' below
            if quant == "any":
                drops = a if neg else None
                if not neg:
                    return und("the clause filter keeps clauses that contain a matching literal")
            else:
                # kept iff all(A') (neg must be False): a literal with A' false drops the clause
                if neg:
                    return und("the clause filter is a negated all()")
                drops = 1 - a
            want = int(bool(same) and lp == p)
            if drops != want:
                errs.append("a clause is %s because of a literal on %s with %s polarity" % (
                    "dropped" if drops else "kept", "the conditioned variable" if same else "another variable",
                    "the same" if lp == p else "the opposite"))
            k = bval(Bt, case)
            if not same and not k:
                errs.append("a literal on another variable is removed from its clause")
            if same and lp != p and k:
                errs.append("the complement of the conditioning literal stays in its clause")
    except Und as e:
        return und("literal predicate not interpretable: %s" % e)
    return inst("LC", key, VIOLATION if errs else OK, fn, None,
                sorted(set(errs))[0] if errs else "same literal → clause dropped; complementary → literal dropped; other → kept (pipeline form)")


_PROG = [None]


def opt_val(t, a, p, litp, bind=None):
    """value of a term over (assignment a ∈ {None,0,1}, polarity p) inside a predicate closure whose literal is `litp`:
    scalars are ints, option values are ('None',) / ('Some', v); `bind` is the value of the closure parameter when a
    nested closure (Option::map) is being applied"""
    t = strip(t)
    if not isinstance(t, tuple) or not t:
        raise Und("non-term")
    if t[0] == "const":
        return int(t[2])
    if t == ("param", 2) and bind is not None:
        return bind
    if mir.is_call(t, "polarity") and (strip(t[2][0]) == litp or strip(t[2][0])[0] == "upvar"):
        return p
    if ((t[0] == "call" and t[1].name == "index" and len(t[2]) == 2 and "label(" in show(t[2][1])) or
            (t[0] == "index" and "label(" in show(t[2]))):
        if a is None:
            raise Und("total assignment has no unassigned case")
        return a
    if t[0] == "deref":
        return opt_val(t[1], a, p, litp, bind)
    if t[0] == "call" and t[1].name == "map" and len(t[2]) == 2 and isinstance(t[2][1], tuple) and t[2][1][0] == "agg" and t[2][1][1] == "closure":
        x = opt_val(t[2][0], a, p, litp, bind)
        if x == ("None",):
            return x
        kids = [g for g in _PROG[0].lib_fns if g.npath == t[2][1][2]] if _PROG[0] else []
        if len(kids) != 1:
            raise Und("closure of map not found")
        return ("Some", opt_val(kids[0].terms.ret, a, p, litp, bind=x[1]))
    if mir.is_call(t, "get") and len(t[2]) == 2 and mir.is_call(strip(t[2][1]), "label"):
        return ("None",) if a is None else ("Some", a)
    if t[0] == "call" and t[1].name in ("lit_implied", "lit_neg_implied") and "PartialModel" in t[1].key() and len(t[2]) == 2:
        # the model's own literal queries (their bodies are checked against these definitions by PM)
        return int(a is not None and ((a == p) == (t[1].name == "lit_implied")))
    if t[0] == "agg" and str(t[2]).endswith("Option"):
        return ("None",) if t[3] == "None" else ("Some", opt_val(t[4][0], a, p, litp, bind))
    if t[0] == "un" and t[1] == "Not":
        return 1 - opt_val(t[2], a, p, litp, bind)
    if t[0] == "bin" and t[1] in ("Eq", "Ne"):
        x, y = opt_val(t[2], a, p, litp, bind), opt_val(t[3], a, p, litp, bind)
        return int((x == y) == (t[1] == "Eq"))
    if t[0] == "call" and t[1].name in ("eq", "ne") and len(t[2]) == 2:
        x, y = opt_val(t[2][0], a, p, litp, bind), opt_val(t[2][1], a, p, litp, bind)
        return int((x == y) == (t[1].name == "eq"))
    if t[0] == "call" and t[1].name in ("is_some", "is_none") and t[2]:
        x = opt_val(t[2][0], a, p, litp, bind)
        return int((x != ("None",)) == (t[1].name == "is_some"))
    if t[0] == "call" and t[1].name in ("unwrap_or",) and len(t[2]) == 2:
        x = opt_val(t[2][0], a, p, litp, bind)
        return x[1] if x[0] == "Some" else opt_val(t[2][1], a, p, litp, bind)
    if t[0] == "field" and t[2] == "0" and isinstance(t[1], tuple) and t[1][0] == "as":
        x = opt_val(t[1][1], a, p, litp, bind)
        if x[0] != "Some":
            raise Und("payload of None")
        return x[1]
    if t[0] == "discr":
        x = opt_val(t[1], a, p, litp, bind)
        return 0 if x == ("None",) else 1
    if t[0] == "gamma":
        c = opt_val(t[1], a, p, litp, bind)
        for lab, v in t[2]:
            if lab == str(c):
                return opt_val(v, a, p, litp, bind)
        for lab, v in t[2]:
            if isinstance(lab, tuple) and lab[0] == "not" and str(c) not in lab[1]:
                return opt_val(v, a, p, litp, bind)
        raise Und("gamma arm")
    raise Und("term %s" % show(t)[:50])


def _predicate_via_helper(prog, fn, kids, total):
    """the scan written as `self.helper(|lit| <status of lit>)` where the helper quantifies `clauses.all(|c| c.any(pred))`:
    the closure handed to the helper is the literal predicate; how the helper uses its parameter says how it is quantified"""
    from . import canon
    key = "%s:literal-status" % fn.npath
    for cs in fn.terms.calls:
        c = cs.callee
        if not (c.local or getattr(c, "res_local", False)):
            continue
        hs = [h for h in prog.resolve(c) if h.kind != "Closure"]
        if len(hs) != 1:
            continue
        h = hs[0]
        for i, a in enumerate(cs.args):
            a0 = strip(a)
            while isinstance(a0, tuple) and a0 and a0[0] in ("ref", "deref"):
                a0 = strip(a0[1])
            if not (isinstance(a0, tuple) and a0 and a0[0] == "agg" and a0[1] == "closure"):
                continue
            gs = [g for g in kids if g.npath == a0[2]]
            if len(gs) != 1:
                continue
            g = gs[0]
            pname = h.arg_name(i + 1)
            how = []
            for b in [h] + [x for x in prog.lib_fns if x.npath.startswith(h.npath + "::{closure")]:
                for c2 in b.terms.calls:
                    def _direct(a2):
                        x = strip(a2)
                        while isinstance(x, tuple) and x and x[0] in ("ref", "deref"):
                            x = strip(x[1])
                        return x == ("param", i + 1) or (isinstance(x, tuple) and x and x[0] == "upvar" and x[1] == pname)
                    if c2.callee.name in ("any", "all", "find", "position", "filter", "map", "count", "for_each") and \
                            any(_direct(a2) for a2 in c2.args[1:]):
                        how.append(c2.callee.name)
            if how != ["any"]:
                return inst("LC", key, UNDECIDED, fn, None, "? the literal predicate is handed to %s, which uses it by %s" % (h.name, how))
            # the helper must demand the predicate of *every* clause
            hall = [c2.callee.name for c2 in h.terms.calls if c2.callee.name in ("all", "any", "find", "filter", "position")]
            if not any(x[0] == "field" and x[2] == "clauses" for t_ in [h.terms.ret] + [a2 for c2 in h.terms.calls for a2 in c2.args]
                       for x in [strip(t_)] + list(mir.subterms(t_)) if isinstance(x, tuple) and x):
                hall = []
            if hall != ["all"]:
                return inst("LC", key, UNDECIDED, fn, None, "? %s does not quantify the clause list with all(): %s" % (h.name, hall))
            r = canon.inline_top(prog, g.terms, g.terms.ret, depth=2)
            names = a0[5] if len(a0) > 5 and a0[5] else ()
            litp = ("param", 2)
            errs = []
            try:
                for av in ((0, 1) if total else (None, 0, 1)):
                    for p in (0, 1):
                        got = opt_val(r, av, p, litp)
                        want = int(av is not None and av == p)
                        if got != want:
                            errs.append("the predicate is %s for a literal of polarity %s whose variable is %s"
                                        % (bool(got), bool(p), "unassigned" if av is None else bool(av)))
            except Und as e:
                return inst("LC", key, UNDECIDED, fn, None, "? predicate not interpretable: %s" % e)
            return inst("LC", key, VIOLATION if errs else OK, g, None,
                        errs[0] if errs else "%s(|lit| ..): every clause has a literal for which the predicate holds; it holds exactly "
                        "for a satisfied literal" % h.name)
    return None


def predicate_form(prog, fn, total=False):
    """the scan written with an iterator predicate (`clause.iter().any(|lit| ..)`): the predicate must hold exactly for a
    satisfied literal"""
    _PROG[0] = prog
    key = "%s:literal-status" % fn.npath
    kids = [g for g in prog.lib_fns if g.npath.startswith(fn.npath + "::{closure")]
    via = _predicate_via_helper(prog, fn, kids, total)
    if via is not None:
        return via
    cand = []
    for g in kids:
        for cs in g.terms.calls:
            if cs.callee.name == "get" and "PartialModel" in cs.callee.key() and len(cs.args) == 2 and \
                    mir.is_call(strip(cs.args[1]), "label") and strip(strip(cs.args[1])[2][0])[0] == "param":
                cand.append((g, strip(strip(cs.args[1])[2][0])))
            if cs.callee.name in ("lit_implied", "lit_neg_implied") and "PartialModel" in cs.callee.key() and len(cs.args) == 2:
                a1 = strip(cs.args[1])
                while isinstance(a1, tuple) and a1 and a1[0] in ("deref", "ref"):
                    a1 = strip(a1[1])
                if a1[0] == "param":
                    cand.append((g, a1))
            if total and cs.callee.name == "index" and len(cs.args) == 2 and "label(arg2)" in show(cs.args[1]):
                cand.append((g, ("param", 2)))
    used = [c for h in [fn] + kids for c in h.terms.calls if c.callee.name in ("any", "all", "find", "position")]
    by_used = {a[2] for c in used for a in c.args if isinstance(a, tuple) and a and a[0] == "agg" and a[1] == "closure"}
    cand = [c for c in cand if c[0].npath in by_used]
    if len(cand) != 1 or not used:
        return inst("LC", key, UNDECIDED, fn, None, "no lookup of a clause literal in the partial model found in this function or its closures")
    g, litp = cand[0]
    how = [c.callee.name for c in used if any(isinstance(a, tuple) and a and a[0] == "agg" and a[1] == "closure" and a[2] == g.npath for a in c.args)]
    if how != ["any"]:
        return inst("LC", key, UNDECIDED, fn, None, "the literal predicate is used by %s" % how)
    errs = []
    try:
        for a in ((0, 1) if total else (None, 0, 1)):
            for p in (0, 1):
                got = opt_val(g.terms.ret, a, p, litp)
                want = int(a is not None and a == p)
                if got != want:
                    errs.append("the predicate is %s for a literal of polarity %s whose variable is %s"
                                % (bool(got), bool(p), "unassigned" if a is None else bool(a)))
    except Und as e:
        return inst("LC", key, UNDECIDED, fn, None, "predicate not interpretable: %s" % e)
    return inst("LC", key, VIOLATION if errs else OK, g, None,
                errs[0] if errs else "any(|lit| model.get(lit.label()) == Some(lit.polarity())): true exactly for a satisfied literal")


def run(prog):
    out = [total_assignment_site(prog), conditioning_site(prog)]
    for name, owner in SITES:
        fns = [f for f in prog.lib_fns if f.name == name and (f.impl_self == owner or (f.in_trait or "").startswith(owner)
                                                                or owner in f.npath)]
        if len(fns) != 1:
            raise CheckerError("LC: site %s::%s not found (%d candidates)" % (owner, name, len(fns)))
        fn0 = fns[0]
        # the literal loop may live in a closure of the function (`let compile_clause = |clause| { for lit in clause .. }`)
        fn, gets = fn0, []
        for cand_ in [fn0] + [x for x in prog.lib_fns if x.npath.startswith(fn0.npath + "::{closure")]:
            gs_ = [cs for cs in cand_.terms.calls if cs.callee.name == "get" and "PartialModel" in cs.callee.key()
                   and len(cs.args) == 2 and mir.is_call(strip(cs.args[1]), "label") and "next(" in show(cs.args[1])]
            if len(gs_) == 1:
                fn, gets = cand_, gs_
                break
        te, cfg = fn.terms, fn.cfg
        if len(gets) != 1:
            out.append(predicate_form(prog, fn0))
            continue
        g = gets[0]
        lit = strip(strip(g.args[1])[2][0])
        loops = sorted([h for h, body in cfg.loop_headers.items() if g.bb in body], key=lambda h: len(cfg.loop_headers[h]))
        if not loops:
            raise CheckerError("LC: lookup in %s is not inside a loop" % fn.npath)
        header = loops[0]
        body = cfg.loop_headers[header]
        gterm = ("call", g.callee, tuple(g.args))

        def val(c, a, p):
            """value of a condition term, or None"""
            c = strip(c)
            if not isinstance(c, tuple) or not c:
                return None
            s = show(c)
            if c[0] == "const":
                return int(c[2])
            if mir.is_call(c, "polarity") and strip(c[2][0]) == lit:
                return p
            if c[0] == "field" and c[2] == "0" and isinstance(c[1], tuple) and c[1][0] == "as" and mir.is_call(strip(c[1][1]), "get"):
                if a is None:
                    raise Und("payload of None")
                return a
            if s.startswith("discr(get("):
                return 0 if a is None else 1
            if mir.is_call(c, "is_none") and mir.is_call(strip(c[2][0]), "get"):
                return int(a is None)
            if mir.is_call(c, "is_some") and mir.is_call(strip(c[2][0]), "get"):
                return int(a is not None)
            if c[0] == "bin" and c[1] in ("Eq", "Ne", "BitAnd", "BitOr", "BitXor"):
                x, y = val(c[2], a, p), val(c[3], a, p)
                if x is None or y is None:
                    return None
                return {"Eq": int(x == y), "Ne": int(x != y), "BitAnd": x & y, "BitOr": x | y, "BitXor": x ^ y}[c[1]]
            if c[0] == "un" and c[1] == "Not":
                x = val(c[2], a, p)
                return None if x is None else 1 - x
            if c[0] == "call" and c[1].name in ("eq", "ne") and len(c[2]) == 2:
                x, y = val(c[2][0], a, p), val(c[2][1], a, p)
                if x is None or y is None:
                    return None
                return int((x == y) == (c[1].name == "eq"))
            return None

        def effects_of(b):
            eff = []
            for st in fn.blocks[b]["stmts"]:
                if st["k"] == "assign" and not st["lhs"]["proj"] and fn.local_name(st["lhs"]["l"]):
                    rv = st["rv"]
                    if rv["k"] == "use" and rv["op"]["k"] == "const" and rv["op"].get("ty") == "bool":
                        eff.append(("set", fn.local_name(st["lhs"]["l"]), rv["op"].get("val")))
            t = fn.blocks[b]["term"]
            if t["k"] == "call":
                nm = ((t.get("fn") or {}).get("def") or "").split("::")[-1]
                if nm not in PURE:
                    dn = fn.local_name(t["dest"]["l"]) if not t["dest"]["proj"] else None
                    eff.append(("call", nm, dn))
            return eff

        def sig(a, p):
            res = set()

            def go(b, eff, seen, depth):
                if depth > 60 or len(res) > 64:
                    raise Und("path explosion")
                eff = eff + effects_of(b)
                t = fn.blocks[b]["term"]
                if t["k"] == "return":
                    res.add((tuple(eff), "return"))
                    return
                if t["k"] == "switch":
                    v = val(te.switch_term[b][0], a, p)
                    if v is not None:
                        tg = [x for vv, x in t["targets"] if int(vv) == v]
                        nxts = [tg[0]] if tg else [t["otherwise"]]
                    else:
                        nxts = [x for _, x in t["targets"]] + [t["otherwise"]]
                else:
                    nxts = list(cfg.succ[b])
                for s in nxts:
                    if fn.blocks[s]["term"]["k"] == "unreachable":
                        continue
                    if s == header:
                        res.add((tuple(eff), "next-literal"))
                    elif s not in body:
                        # the code of a `break` arm is not part of the natural loop: follow it up to the join
                        e2, x, n = list(eff), s, 0
                        while n < 12:
                            e2 += effects_of(x)
                            succ = [y for y in cfg.succ[x] if fn.blocks[y]["term"]["k"] != "unreachable"]
                            if len(succ) != 1 or len(cfg.pred[succ[0]]) != 1 or fn.blocks[x]["term"]["k"] == "switch":
                                break
                            x = succ[0]
                            n += 1
                        res.add((tuple(e2), "leave-loop"))
                    elif s in seen:
                        continue
                    else:
                        go(s, eff, seen | {s}, depth + 1)
            start = fn.blocks[g.bb]["term"].get("target")
            go(start, [], {start}, 0)
            return frozenset(res)

        key = "%s:literal-status" % fn0.npath
        try:
            S = {(a, p): sig(a, p) for a in (None, 0, 1) for p in (0, 1)}
        except Und as e:
            out.append(inst("LC", key, UNDECIDED, fn, g.line, str(e)))
            continue
        errs = []
        sat, fal, una = (S[(0, 0)], S[(1, 1)]), (S[(0, 1)], S[(1, 0)]), (S[(None, 0)], S[(None, 1)])
        def pp(x):
            return sorted((" ".join("%s:%s" % (e[0], e[1]) for e in effs) or "nothing") + " → " + end for effs, end in x)
        if sat[0] != sat[1]:
            errs.append("a satisfied literal is treated differently by polarity: ¬x under x=false does %s, x under x=true does %s"
                        % (pp(sat[0]), pp(sat[1])))
        if fal[0] != fal[1]:
            errs.append("a falsified literal is treated differently by polarity: ¬x under x=true does %s, x under x=false does %s"
                        % (pp(fal[1]), pp(fal[0])))
        if una[0] != una[1]:
            errs.append("an unassigned literal is treated differently by polarity")
        def marks(x):
            return any(any((e[0] == "set" and e[2] == "1") or (e[0] == "call" and e[1] == "true_ptr") for e in effs) for effs, _ in x)
        if not errs:
            if not marks(sat[0]):
                errs.append("the satisfied case does not mark the clause as satisfied (does %s)" % pp(sat[0]))
            if marks(fal[0]) or marks(una[0]):
                errs.append("a literal that is not satisfied marks the clause as satisfied (falsified: %s; unassigned: %s)"
                            % (pp(fal[0]), pp(una[0])))
        out.append(inst("LC", key, VIOLATION if errs else OK, fn, g.line,
                        errs[0] if errs else "satisfied → %s; falsified → %s; unassigned → %s" % (pp(sat[0]), pp(fal[0]), pp(una[0]))))
    return out
