"""RH — robin-hood probing: sibling agreement of the three probe loops.

get_or_insert_by_hash (insert / find), get_by_hash (find) and propagate (displace) walk the same
probe sequence.  A lookup may stop early at a slot whose stored probe length is smaller than the
distance walked so far only because insertion maintains exactly that invariant, so the three loops
must agree on: the home slot `hash % cap`, the step `pos = (pos + 1) % cap`, the distance counter
starting at 0 and growing by 1 per step, and the strict comparison `stored.psl < walked` as the
"not here / displace" test.  grow() re-homes with the same home-slot function.
"""
import re
from . import mir
from .base import inst, OK, VIOLATION, UNDECIDED, strip
from .facts import CheckerError
from .mir import show

T = "backing_store::bump_table::BackedRobinhoodTable"


def named_mu(fn, name):
    """loop-carried local by *role* (local names are not relied on):
       pos       the local used as index into the table (self.tbl / the slice parameter)
       psl       (probe loops) the local compared with a stored element's `.psl`
       searcher  (propagate) the element-typed local whose `.psl` is compared with the resident's"""
    te = fn.terms
    key = None

    def table(t):
        t = strip(t)
        s_ = show(t)
        return s_.endswith(".tbl") or t == ("param", 1) or (t[0] == "mu" and strip(te.mu_init.get((t[1], t[2]), ("top",))) == ("param", 1))
    idx_mus = []
    terms = [a for cs in te.calls for a in cs.args] + [c for (c, _) in te.switch_term.values()] + \
            [u for us in te.mu_update.values() for u in us]
    for t in terms:
        for x in mir.subterms(t):
            if x[0] == "index" and table(x[1]) and strip(x[2])[0] == "mu":
                idx_mus.append(strip(x[2]))
            if x[0] == "call" and x[1].name in ("index", "index_mut") and len(x[2]) == 2 and table(x[2][0]) and strip(x[2][1])[0] == "mu":
                idx_mus.append(strip(x[2][1]))
    pos = idx_mus[0] if idx_mus else None
    if name == "pos":
        key = (pos[1], pos[2]) if pos else None
    else:
        for b, (c, _) in te.switch_term.items():
            c = strip(c)
            if c[0] == "bin" and c[1] in ("Lt", "Le", "Gt", "Ge") and ".psl" in show(c):
                for side in (strip(c[2]), strip(c[3])):
                    if name == "psl" and side[0] == "mu" and side != pos:
                        key = (side[1], side[2])
                    if name == "searcher" and side[0] == "field" and side[2] == "psl" and strip(side[1])[0] == "mu":
                        key = (strip(side[1])[1], strip(side[1])[2])
    if key is None:
        return None, None, []
    return key, te.mu_init.get(key), te.mu_update.get(key, [])


_PROG = [None]


def canon(fn, t, roles):
    if _PROG[0] is not None:
        # a private helper of the slot arithmetic (`home_slot(hash, cap)`) is read through
        try:
            from . import canon as _c
            t = _c.inline_local(_PROG[0], t, lambda h: "{closure" not in h.npath and h.kind != "Closure")
        except Exception:
            pass
    s = show(strip(t))
    for (h, l), nm in roles.items():
        s = s.replace("μ%d_%d" % (h, l), nm)
    s = re.sub(r"\bWithOverflow\b", "", s).replace("AddWithOverflow", "Add")
    s = s.replace("(", " ( ").replace(")", " ) ")
    s = re.sub(r"\s+", " ", s).strip()
    s = s.replace(" ) .0", " )").replace("AddWithOverflow", "Add")
    return s


def loop_facts(fn, hash_t, cap_t):
    te = fn.terms
    kpos, ipos, upos = named_mu(fn, "pos")
    kpsl, ipsl, upsl = named_mu(fn, "psl")
    roles = {}
    if kpos:
        roles[kpos] = "POS"
    if kpsl:
        roles[kpsl] = "PSL"
    out = {}
    out["home"] = canon(fn, ipos, roles).replace(hash_t, "HASH").replace(cap_t, "CAP") if kpos else None
    out["step"] = sorted(canon(fn, u, roles).replace(cap_t, "CAP") for u in upos)
    out["psl0"] = canon(fn, ipsl, roles) if kpsl else None
    out["psl+"] = sorted(canon(fn, u, roles) for u in upsl)
    tests = set()
    for d, (c, vm) in te.switch_term.items():
        c = strip(c)
        if c[0] == "bin" and c[1] in ("Lt", "Le", "Gt", "Ge") and "psl" in show(c):
            # mirrored spelling: `walked > stored.psl` is `stored.psl < walked`
            if c[1] in ("Gt", "Ge") and ".psl" in show(c[3]) and ".psl" not in show(c[2]):
                c = ("bin", {"Gt": "Lt", "Ge": "Le"}[c[1]], c[3], c[2]) + tuple(c[4:])
            elif c[1] in ("Gt", "Ge") and ".psl" not in show(c[3]) and ".psl" in show(c[2]):
                # `stored.psl >= walked` as the test to *go on* is the negation of the exit test `stored.psl < walked`
                c = ("bin", {"Ge": "Lt", "Gt": "Le"}[c[1]], c[2], c[3]) + tuple(c[4:])
            tests.add(canon(fn, c, roles))
    out["cmp"] = sorted(tests)
    return out


def run(prog):
    out = []
    _PROG[0] = prog
    ins = prog.find1(name="get_or_insert_by_hash", self_adt=T, unit="rsdd-lib")
    get = prog.find1(name="get_by_hash", self_adt=T, unit="rsdd-lib")
    def loop_owner(fn):
        """fn itself, or the private helper of the table that walks the probe sequence for it (`self.probe(hash, accept)`)"""
        if named_mu(fn, "pos")[0] or not fn.cfg.loop_headers and False:
            return fn
        for cs in fn.terms.calls:
            if not (cs.callee.local or getattr(cs.callee, "res_local", False)) or cs.callee.name in ("grow", "propagate"):
                continue
            for h in prog.resolve(cs.callee):
                if "{closure" not in h.npath and h.impl_self == T and h.cfg.loop_headers and named_mu(h, "pos")[0] and \
                        len(cs.args) >= 2 and strip(cs.args[1]) == ("param", 2):
                    return h
        return fn
    ins_l, get_l = loop_owner(ins), loop_owner(get)
    fi = loop_facts(ins_l, "arg2", "arg1.cap")
    fg = loop_facts(get_l, "arg2", "arg1.cap")
    want = {"home": "( ( HASH as usize ) Rem CAP )", "step": ["( ( POS Add 1 ) Rem CAP )"], "psl0": "0",
            "psl+": ["( PSL Add 1 )"]}
    for name, fn, f in (("insert", ins, fi), ("lookup", get, fg)):
        for k, w in want.items():
            ok = f[k] == w
            if f[k] is None or f[k] == []:
                out.append(inst("RH", "%s:%s" % (fn.npath, k), UNDECIDED, fn, None,
                                "?the probe loop of the %s was not found in %s or in a helper it hands its hash to" % (name, fn.name)))
                continue
            # `x & self.mask` for `x % self.cap`: the same slot exactly while mask = cap - 1 and cap is a power of two.  That the
            # field follows `cap` is DI's business (a field derived from a sibling is stored again wherever the sibling is);
            # whether cap is a power of two is not decided here
            masked = (lambda v: re.sub(r"BitAnd arg1\.\w+", "Rem CAP", v) if isinstance(v, str) else
                      [re.sub(r"BitAnd arg1\.\w+", "Rem CAP", x) for x in v]) if f[k] is not None else (lambda v: v)
            if not ok and f[k] is not None and masked(f[k]) == w:
                out.append(inst("RH", "%s:%s" % (fn.npath, k), UNDECIDED, fn, None,
                                "?%s = %s: a masked form of hash %% cap — equal to it only while the mask field is cap - 1 and cap "
                                "is a power of two" % (k, f[k])))
                continue
            out.append(inst("RH", "%s:%s" % (fn.npath, k), OK if ok else VIOLATION, fn, None,
                            "%s = %s" % (k, f[k]) if ok else
                            "probe loop of the %s has %s = %s, expected %s (the other loops walk hash %% cap, +1 per step, "
                            "distance from 0)" % (name, k, f[k], w)))
        cmp_ok = len(f["cmp"]) == 1 and re.match(r"^\( .*psl Lt PSL \)$", f["cmp"][0])
        if not f["cmp"]:
            out.append(inst("RH", "%s:early-exit" % fn.npath, UNDECIDED, fn, None, "?no comparison of probe lengths found for the %s" % name))
            continue
        out.append(inst("RH", "%s:early-exit" % fn.npath, OK if cmp_ok else VIOLATION, fn, None,
                        "stops when stored.psl < walked distance" if cmp_ok else
                        "early-exit test of the %s is %s; it must be the strict `stored.psl < walked distance` that "
                        "insertion maintains" % (name, f["cmp"])))
    # the home slot depends on self.cap, which grow() changes: it must be computed after the growth check
    te_i = ins.terms
    grow_bbs = [cs.bb for cs in te_i.calls if cs.callee.name == "grow"]
    home_bbs = []
    for bi, b in enumerate(ins.blocks):
        for st in b["stmts"]:
            if st["k"] == "assign" and st["rv"]["k"] == "bin" and st["rv"]["op"] in ("Rem", "BitAnd"):
                a = st["rv"]["b"]
                if st["rv"]["op"] == "BitAnd" and not (a.get("k") in ("copy", "move") and
                                                      any(e.get("name") for e in a["place"]["proj"])):
                    continue          # `b & 1` and the like: not a reduction by a field of the table
                if a.get("k") in ("copy", "move") and any(e.get("name") == "cap" or st["rv"]["op"] == "BitAnd" for e in a["place"]["proj"]) or \
                        (a.get("k") in ("copy", "move") and ins.local_name(a["place"]["l"]) is None and
                         "cap" in show(te_i.state_out.get(bi, {}).get(a["place"]["l"], ()))):
                    # only the computation that seeds the probe (outside the loop)
                    if not any(bi in body for body in ins.cfg.loop_headers.values()):
                        home_bbs.append(bi)
    errs = []
    if not grow_bbs or not home_bbs:
        errs.append("?growth call or home-slot computation not found (%d/%d)" % (len(grow_bbs), len(home_bbs)))
    else:
        for hb in home_bbs:
            for gb in grow_bbs:
                if ins.cfg.can_reach(hb, gb):
                    errs.append("the home slot `hash % cap` is computed before the table may grow: the request that triggers a "
                                "growth probes the doubled table from a slot of the old capacity (node duplicated or lost)")
    # the resident that gives up its slot restarts its walk *at that slot*: propagate finds the slot occupied (by the
    # resident itself), adds one to its probe length and moves on, so that the length it is finally stored with is its
    # distance from home.  Started one slot further, it is stored with a length one too small, and a later lookup of it
    # stops early (stored.psl < walked distance) — the node is allocated a second time.
    errs_d = []
    props = [cs for cs in te_i.calls if cs.callee.name == "propagate"]
    slot_stores = [(bb, strip(pt)) for (bb, pt, val, _) in te_i.stores if mir.is_call(strip(pt), "index_mut") and show(strip(pt)[2][0]).endswith(".tbl")]
    if not props or not slot_stores:
        errs_d.append("?no displacement (propagate) or slot write found in %s" % ins.name)
    for cs in props:
        start = strip(cs.args[-1])
        later = [pt for bb, pt in slot_stores if bb in ins.cfg.reachable_from(cs.bb)]
        # ... or the new entry is written first and the resident (read before) is moved on afterwards
        later = later or [pt for bb, pt in slot_stores if cs.bb in ins.cfg.reachable_from(bb)]
        if not later:
            errs_d.append("?no slot write before or after the displacement")
            continue
        slot = strip(later[0][2][1])
        if start == slot:
            continue
        el = strip(cs.args[-2]) if len(cs.args) >= 2 else None
        while el is not None and (mir.is_call(el, "clone") or (isinstance(el, tuple) and el and el[0] in ("ref", "deref"))):
            el = strip(el[2][0]) if el[0] == "call" else strip(el[1])
        unmodified = el is not None and mir.is_call(el, "index") and strip(el[2][1]) == slot
        if unmodified and any(x == slot for x in mir.subterms(start)) and any(x[0] == "bin" and x[1].startswith("Add") for x in mir.subterms(start)):
            errs_d.append("the displaced resident starts its walk at %s, past the slot %s it is evicted from: its probe length is "
                          "not advanced for that step and it is stored with a length one too small; a later lookup of it gives up "
                          "one slot early and the node is allocated again (two pointers for one function)" % (show(start)[:50], show(slot)[:20]))
        else:
            errs_d.append("?the displaced resident starts its walk at %s" % show(start)[:50])
    from .base import verdict_of, errtext
    out.append(inst("RH", "%s:displaced-from-own-slot" % ins.npath, verdict_of(errs_d), ins, None,
                    errtext(errs_d) if errs_d else "the evicted resident is propagated from the slot the new entry takes"))
    # the probe length the evicted resident continues with: its stored length is its distance from home *at the slot it is
    # evicted from*; a propagate that resets the length of whatever it is handed is only right for callers that start
    # at the element's home slot (growth), not for the displacement, which starts mid-sequence
    seed = propagate_seed(prog)
    errs_s = []
    if seed is None:
        errs_s.append("?how propagate seeds the carried probe length was not recognised")
    elif seed == "zero":
        for cs in props:
            start = strip(cs.args[-1])
            if not (start[0] == "bin" and start[1] == "Rem" and "hash" in show(start[2])):
                errs_s.append("propagate restarts the probe length of the element it is handed at 0, but the evicted resident is "
                              "handed in at slot %s, which is not its home slot: it is stored with a length smaller than its "
                              "distance from home, a later lookup of it stops early and the node is allocated a second time"
                              % show(start)[:30])
    else:
        for cs in props:
            el = strip(cs.args[-2]) if len(cs.args) >= 2 else None
            while el is not None and isinstance(el, tuple) and el and (mir.is_call(el, "clone") or el[0] in ("ref", "deref")):
                el = strip(el[2][0]) if el[0] == "call" else strip(el[1])
            if el is not None and mir.is_call(el, "new") and len(el[2]) == 3 and strip(el[2][2])[0] == "const":
                errs_s.append("the evicted resident is rebuilt with the constant probe length %s before it is propagated from the "
                              "middle of its sequence" % strip(el[2][2])[2])
    out.append(inst("RH", "%s:displaced-keeps-length" % ins.npath, verdict_of(errs_s), ins, None,
                    errtext(errs_s) if errs_s else "the evicted resident continues with the probe length it was stored with"))
    out.append(inst("RH", "%s:home-after-grow" % ins.npath, VIOLATION if errs else OK, ins, None,
                    "; ".join(sorted(set(errs))) if errs else "home slot is computed after the growth check"))
    ok = fi["cmp"] == fg["cmp"] and fi["home"] == fg["home"] and fi["step"] == fg["step"]
    out.append(inst("RH", "%s:siblings-agree" % T, OK if ok else VIOLATION, get, None,
                    "insert and lookup walk the same probe sequence with the same exit test" if ok else
                    "insert and lookup disagree: %s vs %s" % ({k: fi[k] for k in ("home", "step", "cmp")},
                                                              {k: fg[k] for k in ("home", "step", "cmp")})))
    # propagate
    pr = [f for f in prog.find(name="propagate", path_contains="bump_table", unit="rsdd-lib") if f.impl_self is None]
    if len(pr) != 1:
        raise CheckerError("RH: free function propagate not found")
    pr = pr[0]
    te = pr.terms
    kpos, ipos, upos = named_mu(pr, "pos")
    ksea, isea, usea = named_mu(pr, "searcher")
    roles = {kpos: "POS", ksea: "S"} if kpos and ksea else {}
    errs = []
    step = sorted(canon(pr, u, roles).replace("arg2", "CAP") for u in upos)
    if step != ["( ( POS Add 1 ) Rem CAP )"]:
        masked_step = [re.sub(r"BitAnd (CAP|arg\d+)", "Rem CAP", x) for x in step] == ["( ( POS Add 1 ) Rem CAP )"]
        errs.append("%sstep is %s%s" % ("?" if masked_step else "", step, " (a masked form: equal to +1 mod cap only while the "
                                                                            "parameter is cap - 1 and cap a power of two)" if masked_step else ""))
    tests = [canon(pr, strip(c), roles) for d, (c, vm) in te.switch_term.items() if strip(c)[0] == "bin" and "psl" in show(c)]
    if len(tests) != 1 or not re.match(r"^\( .*psl Lt S\.psl \)$", tests[0]):
        errs.append("displacement test is %s, expected `resident.psl < searcher.psl`" % tests)
    offs = [u for (h, l), us in te.mu_update.items() for u in us
            if re.search(r"\.psl Add 1 \)?$", canon(pr, u, roles)) or re.search(r"psl Add 1", canon(pr, u, roles))]
    offs = [u for u in offs if not show(strip(u)).startswith("γ")]
    if not offs or not all(re.search(r"psl Add 1", canon(pr, u, roles)) for u in offs):
        errs.append("the carried element's probe length is not incremented by one per step")
    out.append(inst("RH", "%s:displace" % pr.npath, VIOLATION if errs else OK, pr, None,
                    "; ".join(errs) if errs else "displaces residents with a strictly smaller probe length, +1 per step"))
    # grow re-homes with the same function
    gr = prog.find1(name="grow", self_adt=T, unit="rsdd-lib")
    homes = []
    fam = [gr] + [g for g in prog.lib_fns if g.npath.startswith(gr.npath + "::{closure")]
    for g in fam:   # the re-insertion may sit in a closure of an iterator chain
        for cs in g.terms.calls:
            if cs.callee.name == "propagate":
                homes.append(strip(cs.args[-1]))
    errs = []

    def cap_like(t):
        # the new capacity itself: self.cap, the value stored into it (next_power_of_two(..), a doubling), a captured copy —
        # not something that merely *mentions* it, like the length of the table that was swapped out
        t = strip(t)
        if t[0] == "cast" and len(t) > 2:
            t = strip(t[2])
        if t[0] == "upvar" or t[0] == "param":
            return True
        if t[0] == "field" and t[2] == "cap":
            return True
        if t[0] == "field" and t[2] == "0" and isinstance(t[1], tuple) and t[1] and t[1][0] == "bin":
            return "cap" in show(t[1])
        if t[0] == "bin":
            return "cap" in show(t)
        if mir.is_call(t) and t[1].name in ("next_power_of_two", "checked_next_power_of_two", "expect", "unwrap", "checked_mul", "max"):
            return "cap" in show(t)
        if mir.is_call(t, "len"):
            inner = strip(t[2][0])
            return not any(mir.is_call(x, "replace") or mir.is_call(x, "take") for x in [inner] + list(mir.subterms(inner)))
        return False
    for h in homes:
        ok = h[0] == "bin" and h[1] == "Rem" and ("hash" in show(h[2]) or any(x == ("param", 2) for x in mir.subterms(h[2]))) \
            and cap_like(h[3])
        if not ok and _PROG[0] is not None:
            try:
                from . import canon as _c
                h2 = strip(_c.inline_local(_PROG[0], h, lambda g_: "{closure" not in g_.npath and g_.kind != "Closure"))
                if h2[0] == "field" and h2[2] == "0":
                    h2 = strip(h2[1])
                if h2 != h and h2[0] == "bin" and h2[1] == "Rem" and ("hash" in show(h2[2])) and cap_like(h2[3]):
                    h, ok = h2, True
            except Exception:
                pass
        masked_home = (not ok) and h[0] == "bin" and h[1] == "BitAnd" and "hash" in show(h[2]) and \
            strip(h[3])[0] == "field" and strip(strip(h[3])[1]) in (("param", 1), ("deref", ("param", 1)))
        if masked_home:
            errs.append("?grow re-homes at %s: a masked form of hash %% cap (DI decides that the mask follows cap)" % show(h)[:60])
        elif not ok:
            errs.append("grow re-homes at %s, not at hash %% cap" % show(h))
        elif not any(x[0] == "field" and x[2] == "hash" for x in mir.subterms(h[2])) and \
                any(x[0] == "call" and x[1].name in ("finish", "hash", "hash_one", "finish_u64") for x in mir.subterms(h[2])):
            errs.append("grow re-homes an element at a hash it computes afresh (%s) instead of the hash stored in its slot: "
                        "elements entered through get_or_insert_by_hash are filed under the caller's hash (the semantic hash of "
                        "the node's function), which is not the element's own Hash — after one growth no lookup by that hash "
                        "finds them, and every existing function is allocated a second time" % show(h[2])[:60])
        else:
            # the modulus must be the *new* capacity: it is read after the store to self.cap
            pass
    if not homes:
        errs.append("no re-insertion found")
    if homes and propagate_start(prog) == "after":
        errs.append("propagate begins probing *behind* the slot it is given (it takes the element to be evicted from that slot), "
                    "but grow hands every element in at its home slot: after a growth no element sits at its home slot, a lookup "
                    "finds the home slot empty and the node is allocated a second time")
    errs += old_capacity_uses(gr)
    out.append(inst("RH", "%s:rehome" % gr.npath, VIOLATION if errs else OK, gr, None,
                    "; ".join(errs) if errs else "re-homes every element at hash % cap"))
    return out


def propagate_seed(prog):
    """how the free function `propagate` seeds the probe length of the element it carries:
    'carried' (the handed element's own psl), 'zero' (reset to 0 whatever was handed in), or None (not recognised)"""
    pr = [f for f in prog.find(name="propagate", path_contains="bump_table", unit="rsdd-lib") if f.impl_self is None]
    if len(pr) != 1:
        return None
    pr = pr[0]
    ksea, isea, usea = named_mu(pr, "searcher")
    if ksea is None or isea is None:
        return None
    t = strip(isea)
    while isinstance(t, tuple) and t and (mir.is_call(t, "clone") or t[0] in ("ref", "deref")):
        t = strip(t[2][0]) if t[0] == "call" else strip(t[1])
    if isinstance(t, tuple) and t and t[0] == "param":
        return "carried"
    if isinstance(t, tuple) and t and t[0] == "agg":
        adt = prog.adts.get("backing_store::bump_table::HashTableElement")
        names = [f["name"] for f in adt["variants"][0]["fields"]] if adt else []
        if "psl" in names and len(t[4]) == len(names):
            v = strip(t[4][names.index("psl")])
            if v[0] == "const" and v[2] == "0":
                return "zero"
            if v[0] == "field" and v[2] == "psl" and strip(v[1])[0] == "param":
                return "carried"
    if mir.is_call(t, "new") and len(t[2]) == 3:
        v = strip(t[2][2])
        if v[0] == "const" and v[2] == "0":
            return "zero"
        if v[0] == "field" and v[2] == "psl" and strip(v[1])[0] == "param":
            return "carried"
    return None


def propagate_start(prog):
    """where `propagate` begins probing relative to the slot it is given: 'at' (that slot) or 'after' (the next one, i.e.
    it assumes the element is being evicted from the given slot), None when not recognised"""
    pr = [f for f in prog.find(name="propagate", path_contains="bump_table", unit="rsdd-lib") if f.impl_self is None]
    if len(pr) != 1:
        return None
    pr = pr[0]
    kpos, ipos, upos = named_mu(pr, "pos")
    if kpos is None or ipos is None:
        return None
    t = strip(ipos)
    if t[0] == "param":
        return "at"
    if t[0] == "bin" and t[1] == "Rem":
        a = strip(t[2])
        if a[0] == "field" and a[2] == "0":
            a = strip(a[1])
        if a[0] == "bin" and a[1].startswith("Add") and strip(a[2])[0] == "param" and strip(a[3])[0] == "const" and strip(a[3])[2] == "1":
            return "after"
    return None


def _is_cap(pl):
    pr = pl.get("proj") or []
    return pl.get("l") == 1 and len(pr) == 2 and pr[0].get("p") == "deref" and pr[1].get("p") == "field" and pr[1].get("name") == "cap"


def old_capacity_uses(gr):
    """grow() doubles self.cap and re-homes every element: a value of self.cap read *before* the store of the new
    capacity is the old capacity; it may feed the computation of the new size and nothing else — neither the
    modulus of a home slot nor the capacity handed to propagate (statement-level def-use on the MIR)."""
    cfg = gr.cfg
    store = None
    reads = []
    for bi, b in enumerate(gr.blocks):
        for si, st in enumerate(b["stmts"]):
            if st["k"] != "assign":
                continue
            if _is_cap(st["lhs"]):
                store = (bi, si)
            rv = st["rv"]
            if rv["k"] == "use" and rv["op"]["k"] in ("copy", "move") and _is_cap(rv["op"]["place"]) and not st["lhs"]["proj"]:
                reads.append((bi, si, st["lhs"]["l"]))
    if store is None:
        return ["grow never stores a new capacity"]
    old = set()
    for bi, si, l in reads:
        after = (bi == store[0] and si > store[1]) or (bi != store[0] and cfg.dominates(store[0], bi))
        if not after:
            old.add(l)
    # flow-insensitive closure through plain copies/moves
    changed = True
    while changed:
        changed = False
        for b in gr.blocks:
            for st in b["stmts"]:
                if st["k"] == "assign" and not st["lhs"]["proj"] and st["rv"]["k"] == "use" and \
                        st["rv"]["op"]["k"] in ("copy", "move") and not st["rv"]["op"]["place"]["proj"] and \
                        st["rv"]["op"]["place"]["l"] in old and st["lhs"]["l"] not in old:
                    old.add(st["lhs"]["l"])
                    changed = True
    errs = []
    for b in gr.blocks:
        for st in b["stmts"]:
            if st["k"] == "assign" and st["rv"]["k"] == "bin" and st["rv"]["op"] == "Rem":
                o = st["rv"]["b"]
                if o["k"] in ("copy", "move") and not o["place"]["proj"] and o["place"]["l"] in old:
                    errs.append("line %s: elements are re-homed at hash %% (capacity read before the growth): lookups start at "
                                "hash %% (new capacity), so about half of the old nodes are never found again and are duplicated"
                                % st.get("line"))
        t = b["term"]
        if t["k"] == "call" and ((t.get("fn") or {}).get("def") or "").endswith("propagate"):
            for a in t["args"]:
                if a["k"] in ("copy", "move") and not a["place"]["proj"] and a["place"]["l"] in old:
                    errs.append("line %s: propagate is given the capacity read before the growth" % t.get("line"))
    return errs
