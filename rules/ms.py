"""MS — memo-slot / polarity agreement.

The fold memo stored on a node is a pair (value for the complemented pointer, value for the regular pointer).
For each polarity of the pointer (its variant: Reg / Compl, BDD / ComplBDD) the traversal is evaluated with every
test on that variant folded (canon.paths_under / assume_variant), and then:

  read    a value taken from the memo and returned comes from slot 0 for a complemented pointer, slot 1 for a regular one
  write   the pair handed to set_scratch has the freshly computed result in that same slot and passes the other slot
          through

Where the memo is read (a match on the pair, `unwrap_or_default()` and a tuple swap, ...) and where it is written
(a closure, a nested fn, the traversal itself) is irrelevant: every body under the traversal is examined.
"""
from . import mir, canon
from .base import inst, OK, VIOLATION, UNDECIDED, strip
from .facts import CheckerError
from .mir import show

ROOTS = [
    ("repr::bdd::BddPtr::bdd_fold_h", (("Reg", "Compl"),)),
    ("<repr::bdd::BddPtr as repr::ddnnf::DDNNFPtr>::fold", (("Reg", "Compl"),)),
    ("<repr::sdd::SddPtr as repr::ddnnf::DDNNFPtr>::fold", (("Reg", "Compl"), ("BDD", "ComplBDD"))),
]


def _peel(t):
    t = strip(t)
    while True:
        if isinstance(t, tuple) and t and t[0] in ("deref", "ref"):
            t = strip(t[1])
        elif mir.is_call(t, "clone") or mir.is_call(t, "copied") or mir.is_call(t, "cloned"):
            t = strip(t[2][0])
        else:
            return t


def memo_slot(t):
    """'0' / '1' when t is the payload of one slot of the scratch pair, else None"""
    t = _peel(t)
    if not canon.is_payload(t):
        return None
    x = _peel(t[1][1])
    if isinstance(x, tuple) and x and x[0] == "field" and x[2] in ("0", "1") and "scratch(" in show(x[1]):
        return x[2]
    return None


def memo_slots(prog, te, t, depth=0):
    """slots of the scratch pair whose payload the term t may evaluate to (through open choices and Option
    eliminations such as `own.unwrap_or_else(|| compute())`)"""
    t = _peel(t)
    out = set()
    if not isinstance(t, tuple) or not t or depth > 6:
        return out
    k = memo_slot(t)
    if k is not None:
        return {k}
    if t[0] in ("gamma", "phi"):
        for _, v in t[2]:
            out |= memo_slots(prog, te, v, depth + 1)
        return out
    oe = canon.opt_elim(prog, te, t)
    if oe is not None:
        o, nv, sv = oe
        out |= memo_slots(prog, te, sv, depth + 1)
        out |= memo_slots(prog, te, nv, depth + 1)
    return out


def _upvars(prog, g):
    """captured variables of closure g as {name: term in the enclosing function}"""
    if "{closure" not in g.npath:
        return {}
    parent = g.npath.rsplit("::{closure", 1)[0]
    for f in prog.lib_fns:
        if f.npath != parent:
            continue
        roots = [a for cs in f.terms.calls for a in cs.args] + ([f.terms.ret] if f.terms.ret is not None else []) + \
                [t for _, t, _ in f.terms.aggs]
        for r in roots:
            for x in mir.subterms(r):
                if x[0] == "agg" and x[1] == "closure" and x[2] == g.npath and len(x) > 5:
                    ups = dict(zip(x[5], x[4]))
                    outer = _upvars(prog, f)
                    return {k: canon.subst(v, None, outer) for k, v in ups.items()} if outer else ups
    return {}


def _under(prog, root):
    return [f for f in prog.lib_fns if f.npath == root or f.npath.startswith(root + "::")]


def run(prog):
    out = []
    n = 0
    for root, pairs in ROOTS:
        fam = _under(prog, root)
        if not fam:
            raise CheckerError("MS: traversal %s not found" % root)
        nr = nw = 0
        for g in fam:
            te = g.terms
            ups = _upvars(prog, g)
            sub = (lambda t: canon.subst(t, None, ups)) if ups else (lambda t: t)
            ptrs = {}
            for cs in te.calls:
                if cs.callee.name in ("scratch", "set_scratch") and cs.args:
                    ptrs[repr(_peel(sub(cs.args[0])))] = _peel(sub(cs.args[0]))
            if len(ptrs) != 1:
                continue
            P = list(ptrs.values())[0]
            # ---- reads
            if P[0] == "param" and te.ret is not None and not ups:
                for vreg, vcompl in pairs:
                    for nu, v in ((0, vreg), (1, vcompl)):
                        rs = canon.paths_under(g, P, v)
                        if rs is None:
                            out.append(inst("MS", "%s:read[%s]" % (g.npath, v), UNDECIDED, g, None, "paths not enumerable"))
                            continue
                        ks = sorted({k for r in rs for k in memo_slots(prog, te, r)})
                        if not ks:
                            continue
                        nr += 1
                        n += 1
                        bad = [k for k in ks if (k == "0") != bool(nu)]
                        out.append(inst("MS", "%s:read[%s]" % (g.npath, v), VIOLATION if bad else OK, g, None,
                                        ("memo slot %s (the value computed for the %s pointer) is returned for a %s pointer: a node "
                                         "reached in both polarities yields its complement's value"
                                         % (bad[0], "complemented" if bad[0] == "0" else "regular", "complemented" if nu else "regular"))
                                        if bad else "slot %s returned for a %s pointer" % (ks[0], "complemented" if nu else "regular")))
            # ---- derived reads: a returned value that is *computed from* a memo entry (not the entry itself, and not the
            # compute step that receives the other slot only to pass it through to set_scratch).  The memo holds the
            # fold's value for one polarity; the fold is generic in the value type, and no function of f's value gives
            # ¬f's value for every such type and every weight (it does for Boolean evaluation, not for Boolean counting
            # with a variable left open, nor for non-normalised weights): each polarity is folded on its own.
            if P[0] == "param" and te.ret is not None and not ups:
                def leaves(t):
                    t = strip(t)
                    if isinstance(t, tuple) and t and t[0] in ("gamma", "phi"):
                        o = []
                        for _, v in t[2]:
                            o += leaves(v)
                        return o
                    return [t]

                def writes_memo(callee_term):
                    c0 = _peel(callee_term)
                    h = None
                    if isinstance(c0, tuple) and c0 and c0[0] == "agg" and c0[1] == "closure":
                        h = canon.closure_fn(prog, c0)[0]
                    return h is not None and any(c2.callee.name == "set_scratch" for c2 in h.terms.calls)
                bad = []
                for lf in leaves(te.ret):
                    if memo_slot(lf) is not None or not (isinstance(lf, tuple) and lf):
                        continue
                    def slot_ref(x):
                        x = _peel(x)
                        return isinstance(x, tuple) and x and x[0] == "field" and x[2] in ("0", "1") and \
                            isinstance(x[1], tuple) and "scratch(" in show(x[1]) and show(x[1]).endswith(".0")
                    inner = [x for x in mir.subterms(lf) if x is not lf and (memo_slot(x) is not None or slot_ref(x))]
                    if not inner:
                        continue
                    core = _peel(lf[1][1]) if canon.is_payload(lf) else lf
                    if mir.is_call(core) and core[1].name in ("call", "call_once", "call_mut") and core[2] and writes_memo(core[2][0]):
                        continue
                    if mir.is_call(core) and core[1].local and any(c2.callee.name == "set_scratch" for h in prog.resolve(core[1]) for c2 in h.terms.calls):
                        continue
                    bad.append(show(lf)[:70])
                if bad:
                    n += 1
                    out.append(inst("MS", "%s:derived-read" % g.npath, VIOLATION, g, None,
                                    "the traversal returns `%s`, a value computed from a memo entry instead of the entry of the "
                                    "pointer's own polarity or a fresh fold: the memo of one polarity does not determine the value "
                                    "of the other for every value type and weight" % bad[0]))
            # ---- writes
            for cs in te.calls:
                if cs.callee.name != "set_scratch" or len(cs.args) != 2:
                    continue
                for vreg, vcompl in pairs[:1]:
                    for nu, v in ((0, vreg), (1, vcompl)):
                        # is this site on a path for this polarity?
                        feasible = True
                        for c, val, _, _ in te.facts_at(cs.bb):
                            b = canon._as_bool(canon.assume_variant(te, sub(c), P, v))
                            if b is not None and b != (val != "0"):
                                feasible = False
                        if not feasible:
                            continue
                        V = strip(canon.assume_variant(te, sub(cs.args[1]), P, v))
                        key = "%s:write[%s]" % (g.npath, "compl" if nu else "reg")
                        if not (isinstance(V, tuple) and V and V[0] == "agg" and V[1] == "tuple" and len(V[4]) == 2):
                            continue     # not a memo pair (another traversal's scratch type)
                        nw += 1
                        n += 1
                        fresh = [i for i, o in enumerate(V[4]) if strip(o)[0] == "agg" and strip(o)[3] == "Some" and "scratch(" not in show(o)]
                        if len(fresh) != 1:
                            out.append(inst("MS", key, UNDECIDED, g, cs.line, "write site not in the (Some(res), other) form: %s" % show(V)[:60]))
                            continue
                        ok = (fresh[0] == 0) == bool(nu)
                        other = strip(V[4][1 - fresh[0]])
                        out.append(inst("MS", key, OK if ok else VIOLATION, g, cs.line,
                                        "result stored in slot %d for a %s pointer, other slot passed through (%s)"
                                        % (fresh[0], "complemented" if nu else "regular", show(other)[:40]) if ok else
                                        "result of the %s pass is stored in slot %d (the %s slot)"
                                        % ("complemented" if nu else "regular", fresh[0], "complemented" if fresh[0] == 0 else "regular")))
        if nr < 2 or nw < 2:
            out.append(inst("MS", "%s:sites" % root, UNDECIDED, fam[0], None,
                            "expected memo reads and writes for both polarities, found %d read / %d write instances" % (nr, nw)))
    return out
