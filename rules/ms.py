"""MS — memo-slot / polarity agreement.

The fold memo stored on a node is a pair (value for the complemented pointer, value for the
regular pointer).  On every path that writes Some(res) into slot k of a set_scratch argument, and
on every path on which a value read from slot k of scratch() flows to the return, the pointer's
complement bit is known and equals (k == 0).
"""
from . import mir
from .base import inst, OK, VIOLATION, UNDECIDED, strip
from .facts import CheckerError
from .mir import show

TRAVERSALS = [
    ("bdd_fold_h", "repr::bdd::BddPtr", None),
    ("bottomup_pass_h", None, "<repr::bdd::BddPtr as repr::ddnnf::DDNNFPtr>::fold"),
    ("bottomup_pass_h", None, "<repr::sdd::SddPtr as repr::ddnnf::DDNNFPtr>::fold"),
]


def slot_of(t):
    """((scratch(p) as Some).0.K as Some).0 -> (p, K)"""
    t = strip(t)
    try:
        if t[0] == "field" and t[2] == "0" and t[1][0] == "as" and t[1][2] == "Some":
            x = t[1][1]
            if x[0] == "field" and x[2] in ("0", "1"):
                y = x[1]
                if y[0] == "field" and y[2] == "0" and y[1][0] == "as" and y[1][2] == "Some" and mir.is_call(y[1][1], "scratch"):
                    return strip(y[1][1][2][0]), x[2]
    except (IndexError, TypeError):
        pass
    return None


def nu_from_facts(te, bb, ptr):
    for c, val, _, d in reversed(te.facts_at(bb)):
        c = strip(c)
        if mir.is_call(c, "is_neg") and strip(c[2][0]) == ptr:
            return val != "0"
        if c[0] == "un" and c[1] == "Not" and mir.is_call(strip(c[2]), "is_neg") and strip(strip(c[2])[2][0]) == ptr:
            return val == "0"
    return None


def run(prog):
    out = []
    n = 0
    for name, self_adt, parent in TRAVERSALS:
        if parent:
            fns = [f for f in prog.lib_fns if f.parent == parent and f.kind != "Closure"]   # the nested helper, whatever its name
        else:
            fns = prog.find(name=name, self_adt=self_adt, unit="rsdd-lib")
        if len(fns) != 1:
            raise CheckerError("MS: traversal %s/%s not found" % (name, parent or self_adt))
        fn = fns[0]
        te = fn.terms
        # ---- reads
        reads = []

        def walk(t, pred_bb, nu):
            t0 = t
            if isinstance(t, tuple) and t and t[0] == "phi":
                for p, v in t[2]:
                    walk(v, p, nu)
                return
            if isinstance(t, tuple) and t and t[0] == "gamma":
                c = strip(t[1])
                for lab, v in t[2]:
                    nu2 = nu
                    if mir.is_call(c, "is_neg"):
                        nu2 = (lab != "0")
                    walk(v, pred_bb, nu2)
                return
            s = slot_of(t)
            if s:
                reads.append((s[0], s[1], pred_bb, nu))
        for b, t in te.ret_by_block.items():
            walk(t, b, None)
        for i, (ptr, k, pb, nu) in enumerate(reads):
            if nu is None and pb is not None and pb >= 0:
                nu = nu_from_facts(te, pb, ptr)
            key = "%s:read#%d[slot %s]" % (fn.npath, i, k)
            n += 1
            if nu is None:
                out.append(inst("MS", key, UNDECIDED, fn, None, "polarity of the pointer is not known where slot %s is returned" % k))
                continue
            ok = (k == "0") == nu
            out.append(inst("MS", key, OK if ok else VIOLATION, fn, None,
                            "slot %s returned for a %s pointer" % (k, "complemented" if nu else "regular") if ok else
                            "memo slot %s (the value computed for the %s pointer) is returned for a %s pointer: a node reached "
                            "in both polarities yields its complement's value"
                            % (k, "complemented" if k == "0" else "regular", "complemented" if nu else "regular")))
        # ---- writes (the fold-and-cache closure, or the function itself)
        bodies = [fn] + list(prog.children(fn))
        for g in bodies:
            tg = g.terms
            for cs in tg.calls:
                if cs.callee.name != "set_scratch" or len(cs.args) != 2:
                    continue
                v = strip(cs.args[1])
                if not (v[0] == "agg" and v[1] == "tuple" and len(v[4]) == 2):
                    continue
                ptr = strip(cs.args[0])
                nu = nu_from_facts(tg, cs.bb, ptr)
                fresh = [i for i, o in enumerate(v[4]) if strip(o)[0] == "agg" and strip(o)[3] == "Some"]
                key = "%s:write[%s]" % (g.npath, "compl" if nu else ("reg" if nu is not None else "?"))
                n += 1
                if nu is None or len(fresh) != 1:
                    out.append(inst("MS", key, UNDECIDED, g, cs.line, "write site not in the (Some(res), other) form or polarity unknown"))
                    continue
                ok = (fresh[0] == 0) == nu
                other = strip(v[4][1 - fresh[0]])
                out.append(inst("MS", key, OK if ok else VIOLATION, g, cs.line,
                                "result stored in slot %d for a %s pointer, other slot passed through (%s)"
                                % (fresh[0], "complemented" if nu else "regular", show(other)[:40]) if ok else
                                "result of the %s pass is stored in slot %d (the %s slot)"
                                % ("complemented" if nu else "regular", fresh[0], "complemented" if fresh[0] == 0 else "regular")))
    if n < 8:
        raise CheckerError("MS: expected >= 8 memo slot sites, found %d" % n)
    return out
