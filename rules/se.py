"""SE — the semantic builders: equality is equality of hashes, and a hash hit is returned as found.

SE1  every caller of check_cached_hash_and_neg returns, on the hit path, exactly the pointer the
     lookup produced.  The lookup has already applied the sign (a node found under the negated hash
     comes back complemented, rule CP-hash); stripping or re-applying a complement afterwards
     returns the negation of the requested function.
SE2  SemanticSddBuilder::sdd_eq is `hash(a) == hash(b)` on every path.  The semantic builder keeps
     neither trimming nor a unique pointer per function, so pointer equality may answer "different"
     for equal functions; no path may decide equality from the pointers.
"""
from . import mir, canon
from .base import inst, OK, VIOLATION, UNDECIDED, strip, verdict_of, errtext
from .facts import CheckerError
from .mir import show
from .dt import leaves

LOOKUP = "check_cached_hash_and_neg"


def run(prog):
    out = []
    n = 0
    for fn in prog.lib_fns:
        if fn.name == LOOKUP or not any(b["term"]["k"] == "call" for b in fn.blocks):
            continue
        te = fn.terms
        sites = [cs for cs in te.calls if cs.callee.name == LOOKUP]
        if not sites:
            continue
        n += 1
        key = "%s:SE1:hit-returned-as-found" % fn.npath
        r = strip(te.ret)
        errs = []
        hit = None
        if r[0] == "gamma" and mir.is_call(strip(r[1][1]) if r[1][0] == "discr" else strip(r[1]), LOOKUP) or \
                (r[0] == "gamma" and "discr(%s" % LOOKUP in show(r[1])):
            for lab, v in r[2]:
                if lab == "1":
                    hit = strip(v)
        if hit is None:
            out.append(inst("SE", key, UNDECIDED, fn, sites[0].line, "hit path not recognised in %s" % show(r)[:80]))
            continue
        ok = hit[0] == "field" and hit[2] == "0" and isinstance(hit[1], tuple) and hit[1][0] == "as" and \
            mir.is_call(strip(hit[1][1]), LOOKUP)
        out.append(inst("SE", key, OK if ok else VIOLATION, fn, sites[0].line,
                        "a hash hit is returned unchanged" if ok else
                        "on a hash hit the function returns %s instead of the pointer found: the lookup already returns the node "
                        "with the sign the requested hash calls for" % show(hit)[:120]))
    if n < 3:
        raise CheckerError("SE1: expected >= 3 callers of %s, found %d" % (LOOKUP, n))
    fns = [f for f in prog.lib_fns if f.name == "sdd_eq" and "SemanticSddBuilder" in f.npath]
    if len(fns) != 1:
        raise CheckerError("SE2: SemanticSddBuilder::sdd_eq not found")
    fn = fns[0]
    errs = []
    for alt in leaves(fn.terms.ret):
        a = strip(alt)
        ok = a[0] == "bin" and a[1] == "Eq" and all(mir.is_call(strip(x), "cached_semantic_hash") or mir.is_call(strip(x), "semantic_hash")
                                                     for x in (a[2], a[3])) and \
            {show(strip(strip(a[2])[2][0])), show(strip(strip(a[3])[2][0]))} == {"arg2", "arg3"}
        if not ok:
            errs.append("a path answers with %s" % show(a)[:80])
    out += hash_definitions(prog)
    out.append(inst("SE", "%s:SE2:eq-by-hash" % fn.npath, VIOLATION if errs else OK, fn, None,
                    ("%s; the semantic builder does not keep one pointer per function (no trimming, literals are not in the "
                     "tables), so only the hashes may decide equality" % errs[0]) if errs else "hash(a) == hash(b) on every path"))
    return out


def _products(t):
    """top-level sum of products -> list of operand pairs"""
    t = strip(t)
    if t[0] == "bin" and t[1] == "Add":
        return _products(t[2]) + _products(t[3])
    if t[0] == "bin" and t[1] == "Mul":
        return [(strip(t[2]), strip(t[3]))]
    return [None]


def _hash_of(t, what):
    """t = cached_semantic_hash(<what>, order/vtree, map) or semantic_hash(...)"""
    t = strip(t)
    return t[0] == "call" and t[1].name in ("cached_semantic_hash", "semantic_hash") and len(t[2]) == 3 and \
        show(strip(t[2][0])) in what and strip(t[2][1]) == ("param", 2) and strip(t[2][2]) == ("param", 3)


def _weight(t, var, fld):
    t = strip(t)
    return t[0] == "field" and t[2] == fld and mir.is_call(strip(t[1]), "var_weight") and \
        strip(strip(t[1])[2][0]) == ("param", 3) and show(strip(strip(t[1])[2][1])) in var


def hash_definitions(prog):
    """SE3  the semantic hash is the weighted model count of the node over the random field weights:
         decision node (BddNode, BinarySDD):  h(low)·w_low(var) + h(high)·w_high(var)
         element (SddAnd):                    h(prime)·h(sub)
         or-node (SddOr):                     Σ over its elements of the element hash
         pointers:                            ⊤ ↦ 1, ⊥ ↦ 0, literal (x, pol) ↦ pol ? w_high(x) : w_low(x)
       and the weights are drawn as (1 − v, v) for ONE random v per variable (low + high ≡ 1)."""
    out = []

    def put(fn, name, errs, okmsg):
        out.append(inst("SE", "%s:SE3:%s" % (fn.npath, name), VIOLATION if errs else OK, fn, None, "; ".join(errs) if errs else okmsg))

    for adt, low, high, var in (("repr::bdd::BddNode", ("arg1.low",), ("arg1.high",), ("arg1.var",)),
                                ("repr::sdd::binary_sdd::BinarySDD", ("low(arg1)", "arg1.low"), ("high(arg1)", "arg1.high"),
                                 ("label(arg1)", "arg1.label"))):
        fn = prog.find1(name="semantic_hash", self_adt=adt, unit="rsdd-lib")
        ps = _products(fn.terms.ret)
        errs = []
        if len(ps) != 2 or None in ps:
            errs.append("hash is %s, not a sum of two products" % show(fn.terms.ret)[:90])
        else:
            seen = set()
            for a, b in ps:
                for h, w in ((a, b), (b, a)):
                    if _hash_of(h, low) and _weight(w, var, "0"):
                        seen.add("low")
                    elif _hash_of(h, high) and _weight(w, var, "1"):
                        seen.add("high")
                    elif _hash_of(h, low) and _weight(w, var, "1"):
                        errs.append("the low child's hash is multiplied by the weight of the *true* literal")
                    elif _hash_of(h, high) and _weight(w, var, "0"):
                        errs.append("the high child's hash is multiplied by the weight of the *false* literal")
            if not errs and seen != {"low", "high"}:
                errs.append("expected h(low)·w_low(var) + h(high)·w_high(var), found %s" % show(fn.terms.ret)[:110])
        put(fn, "decision", errs, "h(low)·w_low(var) + h(high)·w_high(var)")
    fn = prog.find1(name="semantic_hash", self_adt="repr::sdd::sdd_or::SddAnd", unit="rsdd-lib")
    ps = _products(fn.terms.ret)
    ok = len(ps) == 1 and ps[0] is not None and {True} == {(_hash_of(ps[0][0], ("arg1.prime",)) and _hash_of(ps[0][1], ("arg1.sub",))) or
                                                         (_hash_of(ps[0][1], ("arg1.prime",)) and _hash_of(ps[0][0], ("arg1.sub",)))}
    put(fn, "element", [] if ok else ["element hash is %s, expected h(prime)·h(sub)" % show(fn.terms.ret)[:90]], "h(prime)·h(sub)")
    fn = prog.find1(name="semantic_hash", self_adt="repr::sdd::sdd_or::SddOr", unit="rsdd-lib")
    r = strip(fn.terms.ret)
    errs = []
    inner = strip(r[2][0]) if mir.is_call(r, "new") and r[2] else r
    so = canon.sum_of(prog, fn.terms, inner)
    if so is None or "arg1.nodes" not in show(so[0]):
        errs.append("or-node hash is %s, not the sum over its elements" % show(r)[:90])
    else:
        kr = strip(so[1])
        if not (mir.is_call(kr, "value") and mir.is_call(strip(kr[2][0]), "semantic_hash") and strip(strip(kr[2][0])[2][0]) == canon.ELEM):
            errs.append("the summand is %s, not the hash of the element" % show(kr)[:60])
    put(fn, "or-node", errs, "Σ over elements of the element hash")
    for adt in ("repr::bdd::BddPtr", "repr::sdd::SddPtr"):
        fn = prog.find1(name="cached_semantic_hash", self_adt=adt, unit="rsdd-lib")
        errs = []
        vnames = [v["name"] for v in prog.adts[adt]["variants"]]
        for vn in vnames:
            if vn not in ("PtrTrue", "PtrFalse", "Var"):
                continue
            rs = canon.paths_under(fn, ("param", 1), vn, with_conds=True)
            if not rs:
                errs.append("?no value evaluated for %s" % vn)
                continue
            for v, conds in rs:
                v = strip(v)
                if vn in ("PtrTrue", "PtrFalse"):
                    want = "1" if vn == "PtrTrue" else "0"
                    if not (mir.is_call(v, "new") and strip(v[2][0]) == ("const", "u128", want)) and \
                            not (mir.is_call(v, "one" if want == "1" else "zero")):
                        errs.append("%s hashes to %s, expected %s" % (vn, show(v)[:30], want))
                else:
                    pol = None
                    for c, lab, _ in conds:
                        if "(arg1 as Var).1" in show(c):
                            pol = "0" if lab == "0" else "1"
                    if pol is None:
                        # polarity decided by matching on the literal's own field values: Var(l, true) / Var(l, false)
                        errs.append("?literal hash does not depend on the polarity in a way the rule reads: %s" % show(v)[:50])
                    elif not _weight(v, ("(arg1 as Var).0",), pol):
                        errs.append("a %s literal hashes to %s" % ("negative" if pol == "0" else "positive", show(v)[:50]))
        put(fn, "terminals", errs, "⊤ ↦ 1, ⊥ ↦ 0, literal ↦ weight of its polarity")
    # the (low, high) weight pair: built in a closure mapped over the variables, or in the loop that fills the table
    top = prog.find1(name="create_semantic_hash_map", unit="rsdd-lib")
    pairs = []
    for g in [top] + [k for k in prog.lib_fns if k.npath.startswith(top.npath + "::{closure")]:
        cands = [t for _, t, _ in g.terms.aggs] + ([g.terms.ret] if g.terms.ret is not None else [])
        for t in cands:
            t = strip(t)
            if isinstance(t, tuple) and t and t[0] == "agg" and t[1] == "tuple" and len(t[4]) == 2 and \
                    all(any(mir.is_call(x, "random_range") for x in mir.subterms(e)) for e in t[4]) and \
                    not any(show(t) == show(p[1]) for p in pairs):
                pairs.append((g, t))
    errs = []
    if len(pairs) != 1:
        g, r = top, None
        errs.append("?expected one (low, high) weight pair derived from a random draw, found %d" % len(pairs))
    else:
        g, r = pairs[0]
    if r is not None:
        lo, hi = strip(r[4][0]), strip(r[4][1])
        draws_hi = [x for x in mir.subterms(hi) if mir.is_call(x, "random_range")]
        draws_lo = [x for x in mir.subterms(lo) if mir.is_call(x, "random_range")]
        if len(draws_hi) != 1 or len(draws_lo) != 1 or draws_hi[0] != draws_lo[0]:
            errs.append("low and high weight are not derived from one random draw")
        slo = show(lo)
        if not ("P SubWithOverflow" in slo and "AddWithOverflow 1" in slo):
            errs.append("low weight is %s, expected P − v + 1 (so that low + high ≡ 1)" % slo[:80])
    out.append(inst("SE", "%s:SE3:weights-sum-to-one" % top.npath, verdict_of(errs), g, None,
                    errtext(errs) if errs else "(P − v + 1, v) for one draw v: low + high ≡ 1 (mod P)"))
    return out
