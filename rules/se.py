"""SE — the semantic builders: equality is equality of hashes, and a hash hit is returned as found.

SE1  every caller of check_cached_hash_and_neg returns, on the hit path, exactly the pointer the
     lookup produced.  The lookup has already applied the sign (a node found under the negated hash
     comes back complemented, rule CP-hash); stripping or re-applying a complement afterwards
     returns the negation of the requested function.
SE2  SemanticSddBuilder::sdd_eq is `hash(a) == hash(b)` on every path.  The semantic builder keeps
     neither trimming nor a unique pointer per function, so pointer equality may answer "different"
     for equal functions; no path may decide equality from the pointers.
"""
from . import mir
from .base import inst, OK, VIOLATION, UNDECIDED, strip
from .facts import CheckerError
from .mir import show
from .dt import leaves

LOOKUP = "check_cached_hash_and_neg"


def run(prog):
    out = []
    n = 0
    for fn in prog.lib_fns:
        if fn.name == LOOKUP or not any(b["term"]["k"] == "call" for b in fn.blocks):
            continue
        te = fn.terms
        sites = [cs for cs in te.calls if cs.callee.name == LOOKUP]
        if not sites:
            continue
        n += 1
        key = "%s:SE1:hit-returned-as-found" % fn.npath
        r = strip(te.ret)
        errs = []
        hit = None
        if r[0] == "gamma" and mir.is_call(strip(r[1][1]) if r[1][0] == "discr" else strip(r[1]), LOOKUP) or \
                (r[0] == "gamma" and "discr(%s" % LOOKUP in show(r[1])):
            for lab, v in r[2]:
                if lab == "1":
                    hit = strip(v)
        if hit is None:
            out.append(inst("SE", key, UNDECIDED, fn, sites[0].line, "hit path not recognised in %s" % show(r)[:80]))
            continue
        ok = hit[0] == "field" and hit[2] == "0" and isinstance(hit[1], tuple) and hit[1][0] == "as" and \
            mir.is_call(strip(hit[1][1]), LOOKUP)
        out.append(inst("SE", key, OK if ok else VIOLATION, fn, sites[0].line,
                        "a hash hit is returned unchanged" if ok else
                        "on a hash hit the function returns %s instead of the pointer found: the lookup already returns the node "
                        "with the sign the requested hash calls for" % show(hit)[:120]))
    if n < 3:
        raise CheckerError("SE1: expected >= 3 callers of %s, found %d" % (LOOKUP, n))
    fns = [f for f in prog.lib_fns if f.name == "sdd_eq" and "SemanticSddBuilder" in f.npath]
    if len(fns) != 1:
        raise CheckerError("SE2: SemanticSddBuilder::sdd_eq not found")
    fn = fns[0]
    errs = []
    for alt in leaves(fn.terms.ret):
        a = strip(alt)
        ok = a[0] == "bin" and a[1] == "Eq" and all(mir.is_call(strip(x), "cached_semantic_hash") or mir.is_call(strip(x), "semantic_hash")
                                                     for x in (a[2], a[3])) and \
            {show(strip(strip(a[2])[2][0])), show(strip(strip(a[3])[2][0]))} == {"arg2", "arg3"}
        if not ok:
            errs.append("a path answers with %s" % show(a)[:80])
    out.append(inst("SE", "%s:SE2:eq-by-hash" % fn.npath, VIOLATION if errs else OK, fn, None,
                    ("%s; the semantic builder does not keep one pointer per function (no trimming, literals are not in the "
                     "tables), so only the hashes may decide equality" % errs[0]) if errs else "hash(a) == hash(b) on every path"))
    return out
