"""BB — the branch-and-bound searches (marginal MAP, MEU, generic BB): sibling agreement on the scheme.

Three searches (marginal_map_h, meu_h, bb_h), each with a bound function (marginal_map_eval, eu_ub,
bb_ub) and a public driver (marginal_map, meu, bb), implement one scheme.  Whether the *bound* is
admissible for given weights is a numerical fact this technique does not decide; what is decided is
the part of "returns the optimum together with an assignment that attains it" that is visible in the
shape of the code, checked identically on the three siblings:

  BB1 leaf        with no query variable left the result is either (incoming bound, incoming best
                  assignment) or (value of the *current* assignment, the current assignment) — value and
                  witness always come as a pair — and the new pair is taken exactly when it is better
  BB2 branches    the two candidate models are cur_assgn + (x ↦ true) and cur_assgn + (x ↦ false) for
                  the first remaining variable x
  BB3 order       each (upper bound, model) pair of the branching order pairs a model with the bound
                  computed *for that model* over the remaining variables, and both models are present
  BB4 recursion   recursion passes the running best pair, the remaining variables, and the model of the
                  pair being iterated; the running pair is updated only pairwise (value and witness from
                  the same recursive result, or both kept, or both reset to the incoming pair)
  BB5 pruning     a branch is skipped only under `upper bound ≤ (running or incoming) lower bound`
  BB6 bound       the bound's fold returns `high` for a variable assigned true and `low` for one assigned
                  false, relaxes exactly the unassigned variables of the given set by max/join of the two
                  sides, and sums `w_low·low + w_high·high` (weights paired with their sides) otherwise
  BB7 driver      the initial lower bound is the value of the same assignment that is passed as the
                  initial best; the search starts from the empty assignment with the full variable list
"""
from . import mir, nc
from .base import inst, OK, VIOLATION, UNDECIDED, strip
from .facts import CheckerError
from .mir import show
from .dt import leaves

SIBS = [("marginal_map_h", "marginal_map_eval", "marginal_map"), ("meu_h", "eu_ub", "meu"), ("bb_h", "bb_ub", "bb")]
P_LB, P_BEST, P_VARS, P_WMC, P_ASSGN = ("param", 2), ("param", 3), ("param", 4), ("param", 5), ("param", 6)


def verdict_of(errs):
    """messages starting with '?' say "shape not recognised": alone they make the instance undecided, never a violation"""
    if not errs:
        return OK
    return UNDECIDED if all(e.startswith("?") for e in errs) else VIOLATION


def has(t, pred):
    return any(pred(x) for x in mir.subterms(t))


def is_ucall(x, uname, model=None):
    return isinstance(x, tuple) and x and x[0] == "call" and x[1].name == uname and \
        (model is None or (len(x[2]) >= 2 and strip(x[2][1]) == model))


def unclone(t):
    t = strip(t)
    while mir.is_call(t, "clone") and t[2]:
        t = strip(t[2][0])
    return t


def tup(t):
    t = strip(t)
    if isinstance(t, tuple) and t and t[0] == "agg" and t[1] == "tuple" and len(t[4]) == 2:
        return strip(t[4][0]), strip(t[4][1])
    return None


def run(prog):
    out = []
    for sname, uname, dname in SIBS:
        fn = prog.find1(name=sname, self_adt="repr::bdd::BddPtr", unit="rsdd-lib")
        te = fn.terms
        r = strip(te.ret)
        K = fn.npath

        # a search that works on ONE shared `&mut PartialModel` instead of a copy per node: which assignment the model
        # holds when a bound is evaluated, or when the recursion starts, is a matter of statement order, not of which term
        # is paired with which — BB2/BB3/BB4 read terms, so there they answer "undecided" and PM's shared-model rule
        # (every set is undone or restored before the return) carries the obligation
        shared = any("&mut" in fn.locals[i]["s"] and "PartialModel" in fn.locals[i]["s"] for i in range(1, fn.argc + 1))

        def put(rule, errs, okmsg, line=None, und=False):
            if shared and errs and rule.split(":")[0] in ("BB2", "BB3", "BB4"):
                errs = ["?" + e.lstrip("?") + " (shared model: decided by PM shared-model-restored)" for e in errs]
            out.append(inst("BB", "%s:%s" % (K, rule), UNDECIDED if und else verdict_of(errs), fn, line,
                            "; ".join(e.lstrip("?") for e in errs) if errs else okmsg))

        # split on `vars` empty
        leaf = node = None
        if r[0] == "gamma" and "PtrMetadata(arg4)" in show(r[1]) and " Eq 0" in show(r[1]):
            for lab, v in r[2]:
                if lab == "0":
                    node = strip(v)
                else:
                    leaf = strip(v)
        if leaf is None or node is None:
            put("BB1:leaf", [], "", und=True)
            continue
        # ---- BB1
        errs = []
        alts = [tup(a) for a in leaves(leaf)]
        kinds = set()
        for a in alts:
            if a is None:
                errs.append("?a leaf result is not a (value, assignment) pair")
                continue
            v, w = a
            if v == P_LB and unclone(w) == P_BEST:
                kinds.add("keep")
            elif has(v, lambda x: is_ucall(x, uname, P_ASSGN)) and unclone(w) == P_ASSGN:
                kinds.add("new")
            else:
                errs.append("the pair (%s, %s) mixes the value of one assignment with another assignment as witness"
                            % (show(v)[:50], show(w)[:30]))
        if not errs and kinds != {"keep", "new"}:
            errs.append("?expected both outcomes (keep the incoming pair / take the current assignment), found %s" % sorted(kinds))
        if not errs and leaf[0] == "gamma":
            c = strip(leaf[1])
            arms = {("T" if lab != "0" else "F"): tup(v) for lab, v in leaf[2] if tup(v)}
            def kind(a):
                return "keep" if a and a[0] == P_LB else "new"
            if c[0] == "bin" and c[1] in ("Gt", "Ge", "Lt", "Le"):
                l_new = has(c[2], lambda x: is_ucall(x, uname))
                r_new = has(c[3], lambda x: is_ucall(x, uname))
                if l_new == r_new:
                    errs.append("?leaf comparison %s does not compare the new value with the incoming bound" % show(c)[:80])
                else:
                    better_when_true = (c[1] in ("Gt", "Ge")) == l_new
                    want_true = "new" if better_when_true else "keep"
                    if "T" in arms and kind(arms["T"]) != want_true:
                        errs.append("under `%s` the leaf returns the %s pair: the worse of the two is kept"
                                    % (show(c)[:70], kind(arms["T"])))
            elif (c[0] == "bin" and c[1] in ("Eq", "Ne")) or mir.is_call(c, "eq") or mir.is_call(c, "ne"):
                a, b = (c[2], c[3]) if c[0] == "bin" else (c[2][0], c[2][1])
                if (c[0] == "bin" and c[1] == "Ne") or mir.is_call(c, "ne"):
                    arms = {"T": arms.get("F"), "F": arms.get("T")}   # a != b: the arms trade places
                a, b = strip(a), strip(b)
                ch = b if mir.is_call(b, "choose") else (a if mir.is_call(a, "choose") else None)
                other = a if ch is b else b
                if ch is None:
                    errs.append("?leaf test %s not recognised" % show(c)[:80])
                else:
                    want_true = "keep" if other == P_LB else "new"
                    if "T" in arms and kind(arms["T"]) != want_true:
                        errs.append("when choose(..) returns %s the leaf returns the %s pair" % (show(other)[:30], kind(arms["T"])))
            else:
                errs.append("?leaf test %s not recognised" % show(c)[:80])
        put("BB1:leaf", errs, "leaf returns (incoming bound, incoming best) or (value of cur_assgn, cur_assgn), the better one")
        # ---- BB2
        sets = [cs for cs in te.calls if cs.callee.name == "set" and "PartialModel" in cs.callee.key()]
        errs = []
        models = {}
        if len(sets) != 2:
            errs.append("?expected two PartialModel::set calls, found %d" % len(sets))
        else:
            vals = set()
            for cs in sets:
                x, v = strip(cs.args[1]), strip(cs.args[2])
                if show(x) != "arg4[0]":
                    errs.append("line %d: the branching variable is %s, not the first remaining variable" % (cs.line, show(x)[:30]))
                if v[0] != "const":
                    errs.append("?line %d: branch value is not a constant" % cs.line)
                else:
                    vals.add(v[2])
                    models[cs.bb] = int(v[2])
            if not errs and vals != {"0", "1"}:
                errs.append("both branches assign the value %s" % sorted(vals))
        mterms = {}
        for x in mir.subterms(node):
            pass
        put("BB2:branches", errs, "models are cur_assgn + (x ↦ true) and cur_assgn + (x ↦ false), x the first remaining variable")
        # ---- BB3
        errs = []
        arrays = [a[1] for a in te.aggs if isinstance(a[1], tuple) and a[1][0] == "agg" and a[1][1] == "array" and len(a[1][4]) == 2]
        def model_site(m):
            m = strip(m)
            while mir.is_call(m, "clone"):
                m = strip(m[2][0])
            if isinstance(m, tuple) and m[0] == "mut" and m[2].name == "set":
                return m[1][0]
            return None
        if not arrays:
            errs.append("?branching order array not found")
        for arr in arrays:
            pairs = [tup(e) for e in arr[4]]
            if any(p is None for p in pairs):
                errs.append("?order entries are not (bound, model) pairs")
                continue
            sites = []
            for ub, m in pairs:
                ms = model_site(m)
                sites.append(ms)
                if not (is_ucall(ub, uname) and len(ub[2]) >= 4):
                    # a bound obtained by arithmetic instead of an evaluation: a quotient by a literal weight is not a number
                    # when the weight is 0 (weights are probabilities: 0 and 1 are legal) — NaN compares false with everything,
                    # so both branches are pruned and the incumbent is returned
                    divs = [x for x in mir.subterms(ub) if x[0] == "bin" and x[1] == "Div" and
                            any(mir.is_call(y) and y[1].name in ("var_weight", "get_var_weight", "weight", "index") and
                                ("Wmc" in (y[1].key() or "") or "wmc" in show(y).lower() or y[1].name.endswith("weight"))
                                for y in mir.subterms(x[3]))]
                    if divs:
                        errs.append("an order entry's bound is obtained by dividing by a literal weight (%s): a weight may be 0, the "
                                    "quotient is then NaN or infinite and the comparisons that order and prune the branches are "
                                    "meaningless (both branches pruned, the incumbent returned)" % show(divs[0])[:70])
                        continue
                    errs.append("?order entry's first component %s is not a call of %s" % (show(ub)[:40], uname))
                    continue
                if ms is None or model_site(ub[2][1]) is None:
                    # the models are not built by `set` in this function (e.g. a helper returns them): compare the terms
                    if strip(ub[2][1]) != strip(m) and unclone(ub[2][1]) != unclone(m):
                        errs.append("an order entry pairs a model with the upper bound computed for a different model (%s vs %s)"
                                    % (show(m)[:40], show(ub[2][1])[:40]))
                elif model_site(ub[2][1]) != ms:
                    errs.append("an order entry pairs the model of one branch with the upper bound computed for the other branch")
                vs = show(strip(ub[2][2]))
                if "subslice" not in vs:
                    errs.append("the bound of a branch is computed over %s, not over the remaining variables" % vs[:50])
                if strip(ub[2][3]) != P_WMC:
                    errs.append("the bound is computed with other weights than the search's")
            if None in sites:
                if len({repr(unclone(m)) for _, m in pairs}) != 2:
                    errs.append("the branching order lists the same model twice")
            elif len(set(sites)) != 2 or (models and set(sites) != set(models)):
                errs.append("the branching order does not contain both branch models (%s)" % sites)
        put("BB3:order", errs, "each order lists both models, each with the bound computed for it over the remaining variables")
        # ---- BB4 / BB5
        recs = [cs for cs in te.calls if cs.callee.name == sname]
        errs, perrs = [], []
        lb_mu = best_mu = None
        for (h, l), v in te.mu_init.items():   # the running pair is whatever loop-carried locals start as the incoming pair
            if unclone(v) == P_LB and lb_mu is None:
                lb_mu = ("mu", h, l)
            if unclone(v) == P_BEST and best_mu is None:
                best_mu = ("mu", h, l)
        if lb_mu is None or best_mu is None:
            errs.append("?running best pair is not initialised with the incoming (bound, best assignment)")
        if len(recs) != 1:
            errs.append("?expected one recursive call, found %d" % len(recs))
        else:
            cs = recs[0]
            a = [strip(x) for x in cs.args]
            it_model = a[5]
            while mir.is_call(it_model, "clone"):
                it_model = strip(it_model[2][0])
            if lb_mu and a[1] != lb_mu:
                errs.append("recursion is given %s as lower bound, not the running best" % show(a[1])[:40])
            if best_mu and unclone(a[2]) != best_mu:
                errs.append("recursion is given %s as best assignment, not the running best" % show(a[2])[:40])
            if not (a[3][0] == "subslice" and strip(a[3][1]) == P_VARS and a[3][2] == 1):
                errs.append("recursion continues with %s, not with the remaining variables" % show(a[3])[:40])
            if a[4] != P_WMC:
                errs.append("recursion changes the weights")
            if not (it_model[0] == "field" and it_model[2] == "1" and "next(" in show(it_model)):
                errs.append("recursion explores %s, not the model of the order entry being iterated" % show(it_model)[:50])
            # pairwise update
            for (h, l), ups in te.mu_update.items():
                pass
            if lb_mu and best_mu:
                ul = te.mu_update.get((lb_mu[1], lb_mu[2]), [])
                ub_ = te.mu_update.get((best_mu[1], best_mu[2]), [])
                if len(ul) == 1 and len(ub_) == 1:
                    la, ba = leaves(ul[0]), leaves(ub_[0])
                    if len(la) != len(ba):
                        errs.append("value and witness of the running best are updated under different conditions")
                    else:
                        for x, y in zip(la, ba):
                            x, y = strip(x), unclone(y)
                            kx = "mu" if x == lb_mu else ("in" if x == P_LB else ("rec" if x[0] == "field" and x[2] == "0" and mir.is_call(strip(x[1]), sname) else "?"))
                            ky = "mu" if y == best_mu else ("in" if y == P_BEST else ("rec" if y[0] == "field" and y[2] == "1" and mir.is_call(strip(y[1]), sname) else "?"))
                            if kx == "?" or ky == "?":
                                errs.append("?running best update not recognised (%s, %s)" % (show(x)[:40], show(y)[:40]))
                                break
                            if kx != ky:
                                errs.append("the running best becomes (%s, %s): value and witness no longer belong together"
                                            % (show(x)[:40], show(y)[:40]))
                                break
                else:
                    errs.append("?running best update not recognised")
            # BB5: every entry of the order is visited (the only way to skip one is the bound test below)
            for x in mir.subterms(it_model):
                if mir.is_call(x, "next") and x[2] and strip(x[2][0])[0] == "mutref":
                    for (h, l), init in te.mu_init.items():
                        if l == strip(x[2][0])[1]:
                            t_ = strip(init)
                            while isinstance(t_, tuple) and t_ and t_[0] == "call" and t_[2]:
                                if t_[1].name in nc.DROPPING:
                                    perrs.append("the branching order is iterated through `%s`: an entry can be skipped without its "
                                                 "upper bound having been compared with the lower bound" % t_[1].name)
                                t_ = strip(t_[2][0])
            # BB5: the loop over the order ends only when the order is exhausted (a `break` on any other test skips an entry
            # whose bound was never compared with the incumbent)
            it_loc = None
            for x in mir.subterms(it_model):
                if mir.is_call(x, "next") and x[2] and strip(x[2][0])[0] == "mutref":
                    it_loc = strip(x[2][0])[1]
            cfg = fn.cfg
            for h, body in cfg.loop_headers.items():
                if it_loc is None or (h, it_loc) not in te.mu_init or cs.bb not in body:
                    continue
                for b in sorted(body):
                    for s_ in cfg.succ[b]:
                        if s_ in body or fn.blocks[s_]["term"]["k"] == "unreachable":
                            continue
                        sw = te.switch_term.get(b)
                        if sw and sw[0][0] == "discr" and mir.is_call(strip(sw[0][1]), "next") and strip(strip(sw[0][1])[2][0]) == ("mutref", it_loc):
                            continue          # the iterator's None
                        if fn.blocks[b]["term"]["k"] in ("call", "assert", "drop") and s_ not in body and \
                                fn.blocks[b]["term"].get("target") != s_:
                            continue          # unwind edge
                        cond = show(sw[0])[:60] if sw else "?"
                        perrs.append("the loop over the branching order is left on `%s` (line %s) before every entry has been "
                                     "compared with the incumbent: a branch whose upper bound exceeds the best value found is never "
                                     "explored" % (cond, fn.blocks[b]["term"].get("line")))
            # BB5: guard
            guards = []
            for c, val, _, _ in te.facts_at(cs.bb):
                sc = show(c)
                c = strip(c)
                if "next(" in sc and mir.is_call(c) and (c[1].local or getattr(c[1], "res_local", False)) and len(c[2]) == 2:
                    # the comparison lives in a private predicate `better(ub, lb)`: evaluate its body at witness points.
                    # A branch whose bound exceeds the incumbent by however little must be explored.
                    a_ub = ["next(" in show(a) for a in c[2]]
                    if a_ub[0] != a_ub[1]:
                        gs = [g for g in prog.resolve(c[1]) if "{closure" not in g.npath]
                        holds = val != "0"
                        res = []
                        if len(gs) == 1 and gs[0].terms.ret is not None:
                            for ub_, lb_ in ((2e-30, 1e-30), (1.0 + 1e-9, 1.0), (3.0, 1.0), (1e-300, 0.0)):
                                env = {1: ub_ if a_ub[0] else lb_, 2: lb_ if a_ub[0] else ub_}
                                res.append((_num_eval(gs[0].terms.ret, env), ub_, lb_))
                        if not res or any(r is None for r, _, _ in res):
                            perrs.append("?the pruning test is `%s`, whose body is not evaluated here" % sc[:50])
                        else:
                            guards.append(sc[:60])
                            bad = [(u, l) for r, u, l in res if bool(r) != holds]
                            if bad:
                                perrs.append("the branch is explored under `%s`, which is false for an upper bound of %g against a lower "
                                             "bound of %g: a branch that can still improve the result is pruned (a fixed tolerance is "
                                             "larger than any difference between small weighted counts)" % (sc[:50], bad[0][0], bad[0][1]))
                    continue
                if "next(" in sc and c[0] == "bin" and c[1] in ("Gt", "Ge", "Lt", "Le"):
                    left_ub = "next(" in show(c[2])
                    right_ub = "next(" in show(c[3])
                    if left_ub == right_ub:
                        continue
                    other = strip(c[3] if left_ub else c[2])
                    base = other
                    while base[0] == "field":
                        base = strip(base[1])
                    if base not in (lb_mu, P_LB):
                        perrs.append("the pruning test compares the upper bound with %s, not with a lower bound" % show(other)[:40])
                        continue
                    holds = val != "0"
                    # normalise to "ub OP lb"
                    op = c[1] if left_ub else {"Gt": "Lt", "Ge": "Le", "Lt": "Gt", "Le": "Ge"}[c[1]]
                    explores_when_ub_greater = (op in ("Gt", "Ge")) == holds
                    guards.append(sc[:60])
                    if not explores_when_ub_greater:
                        perrs.append("a branch is explored only when its upper bound is *below* the lower bound (%s is %s): "
                                     "every branch that could improve the result is pruned" % (sc[:60], "true" if holds else "false"))
        put("BB4:recursion", errs, "recursion gets (running bound, running best, remaining variables, weights, iterated model); "
            "the running pair changes only as a pair")
        put("BB5:pruning", perrs, "branch explored iff upper bound > lower bound (%s)" % (guards if recs and len(recs) == 1 else ""))
        # node return
        nr = tup(node)
        errs = []
        if not (nr and nr[0] == lb_mu and unclone(nr[1]) == best_mu):
            errs.append("%sthe search returns %s, not the running best pair" % ("?" if nr is None else "", show(node)[:60]))
        put("BB4:result", errs, "returns the running best pair")
        # ---- BB6 bound
        ufn = prog.find1(name=uname, self_adt="repr::bdd::BddPtr", unit="rsdd-lib")
        clos = [g for g in prog.lib_fns if g.npath.startswith(ufn.npath + "::{closure")]
        fold = [g for g in clos if "get(" in show(g.terms.ret) or any(c.callee.name == "get" for c in g.terms.calls)]
        errs = []
        low, high = ("param", 3), ("param", 4)
        if len(fold) != 1:
            # the step may have been extracted: a closure that only forwards (var, low, high, ..) to a private function
            fwd = []
            for c_ in clos:
                r_ = strip(c_.terms.ret) if c_.terms.ret is not None else None
                if isinstance(r_, tuple) and r_ and r_[0] == "call" and (r_[1].local or getattr(r_[1], "res_local", False)):
                    hs_ = [h for h in prog.resolve(r_[1]) if "{closure" not in h.npath and
                           any(c2.callee.name == "get" for c2 in h.terms.calls)]
                    a_ = [strip(x) for x in r_[2]]
                    if len(hs_) == 1 and ("param", 3) in a_ and ("param", 4) in a_:
                        fwd.append((hs_[0], ("param", a_.index(("param", 3)) + 1), ("param", a_.index(("param", 4)) + 1)))
            if len(fwd) == 1:
                fold = [fwd[0][0]]
                low, high = fwd[0][1], fwd[0][2]
        if len(fold) != 1:
            out.append(inst("BB", "%s:BB6:bound" % ufn.npath, UNDECIDED, ufn, None, "fold step of %s not found" % uname))
            continue
        g = fold[0]
        rr = strip(g.terms.ret)
        alts = []
        if rr[0] == "phi":
            alts = [strip(v) for _, v in rr[2]]
        elif rr[0] == "gamma":
            alts = [strip(v) for _, v in rr[2]]
        direct = [a for a in alts if a in (low, high)]
        # which block returns high: the one under Some(true)
        gte = g.terms
        for pb, v in (rr[2] if rr[0] == "phi" else []):
            v = strip(v)
            if v in (low, high):
                b = int(str(pb).replace("bb", "")) if not isinstance(pb, int) else pb
                pol = None
                for c, val, _, _ in gte.facts_at(b):
                    sc = show(c)
                    if sc.endswith("as Some).0") and "get(" in sc and "discr" not in sc:
                        pol = 0 if val == "0" else 1
                if pol is None:
                    errs.append("?assigned-variable case not recognised")
                elif (v == high) != (pol == 1):
                    errs.append("a variable assigned %s continues with the %s child" % (bool(pol), "high" if v == high else "low"))
        if len(direct) != 2:
            errs.append("?expected the two assigned-variable cases to return the children unchanged, found %d" % len(direct))
        rest = [a for a in alts if a not in (low, high)]
        okrest = False
        for a in rest:
            if a[0] == "gamma" and mir.is_call(strip(a[1]), "contains"):
                cset = strip(a[1])
                if "value_usize(arg2)" not in show(cset[2][1]):
                    errs.append("relaxation set is tested for %s, not for the node's variable" % show(cset[2][1])[:40])
                for lab, v in a[2]:
                    v = strip(v)
                    sv = show(v)
                    if lab == "0":
                        # sum: (w.0 * low) + (w.1 * high)
                        for side, fld in ((low, "0"), (high, "1")):
                            good = False
                            for x in mir.subterms(v):
                                if x[0] == "bin" and x[1] == "Mul":
                                    ops = [strip(x[2]), strip(x[3])]
                                    if side in ops:
                                        w = [o for o in ops if o != side]
                                        if w and w[0][0] == "field" and w[0][2] == fld and "var_weight" in show(w[0]):
                                            good = True
                                        elif w:
                                            errs.append("in the sum case the %s child is weighted with %s" % ("low" if side == low else "high", show(w[0])[:40]))
                                            good = True
                            if not good:
                                errs.append("sum case does not weight the %s child" % ("low" if side == low else "high"))
                        if not any(x[0] == "bin" and x[1] == "Add" for x in mir.subterms(v)):
                            errs.append("the non-relaxed case is not a sum")
                    else:
                        for x in mir.subterms(v):
                            if x[0] == "bin" and x[1] == "Mul":
                                ops = [strip(x[2]), strip(x[3])]
                                for side, fld in ((low, "0"), (high, "1")):
                                    if side in ops:
                                        w = [o for o in ops if o != side]
                                        if w and w[0][0] == "field" and "var_weight" in show(w[0]) and w[0][2] != fld:
                                            errs.append("in the relaxed (max/join) case the %s child is weighted with the %s weight: "
                                                        "the bound is no longer an upper bound when that weight is the smaller one"
                                                        % ("low" if side == low else "high", "high" if w[0][2] == "1" else "low"))
                        if not (has(v, lambda x: x == low) and has(v, lambda x: x == high)):
                            errs.append("the relaxed case does not take both children into account (%s)" % sv[:60])
                        if not has(v, lambda x: x[0] == "call" and x[1].name in ("max", "join", "choose")):
                            errs.append("the relaxed case is not a max/join of the two sides (%s)" % sv[:60])
                okrest = True
        if not okrest:
            errs.append("?unassigned-variable case (relax if in the set, else sum) not recognised")
        out.append(inst("BB", "%s:BB6:bound" % ufn.npath, verdict_of(errs), g, None,
                        "; ".join(e.lstrip("?") for e in errs) if errs else "assigned true → high, assigned false → low, in set → max/join of both sides, else w_l·low + w_h·high"))
        # ---- BB6w: weights of the already assigned query variables (where the bound multiplies them in)
        ute = ufn.terms
        werrs, wn = [], 0
        for (h, l), ups in ute.mu_update.items():
            for up in ups:
                up = strip(up)
                if up[0] != "gamma" or not mir.is_call(strip(up[1]), "polarity"):
                    continue
                arms = {("F" if lab == "0" else "T"): strip(v) for lab, v in up[2]}
                if not all(a[0] == "bin" and a[1] == "Mul" for a in arms.values()) or len(arms) != 2:
                    continue
                wn += 1
                for which, a in arms.items():
                    w = [strip(o) for o in (a[2], a[3]) if "var_weight" in show(o)]
                    if not w or w[0][0] != "field":
                        werrs.append("?weight operand not recognised in %s" % show(a)[:60])
                    elif (w[0][2] == "1") != (which == "T"):
                        werrs.append("a query variable assigned %s is weighted with its %s weight"
                                     % ("true" if which == "T" else "false", "low" if w[0][2] == "0" else "high"))
        if wn:
            out.append(inst("BB", "%s:BB6w:assigned-weights" % ufn.npath, verdict_of(werrs), ufn, None,
                            "; ".join(e.lstrip("?") for e in werrs) if werrs else "assigned true ↦ × high weight, assigned false ↦ × low weight"))
        # ---- BB7 driver
        dfn = prog.find1(name=dname, self_adt="repr::bdd::BddPtr", unit="rsdd-lib")
        dr = strip(dfn.terms.ret)
        errs = []

        def _leaves(t):
            t = strip(t)
            if isinstance(t, tuple) and t and t[0] in ("gamma", "phi"):
                o = []
                for _, v in t[2]:
                    o += _leaves(v)
                return o
            return [t]
        lv = _leaves(dr)
        searches = [x for x in lv if mir.is_call(x, sname) and len(x[2]) == 6]
        for x in lv:
            if x in searches:
                continue
            # a return that does not come from the search (a shortcut for a degenerate diagram): the pair must still be
            # (value of the assignment, that assignment) — the property promises an assignment that *attains* the value
            if x[0] == "agg" and x[1] == "tuple" and len(x[4]) == 2:
                val, asg = strip(x[4][0]), strip(x[4][1])
                ucs_ = [y for y in [val] + list(mir.subterms(val)) if is_ucall(y, uname)]
                if not ucs_ or unclone(ucs_[0][2][1]) != unclone(asg):
                    errs.append("the driver also returns (%s, %s) without going through the search: the value is not computed as the "
                                "value of the assignment it is returned with (for a constant diagram the optimum over the query "
                                "variables is the product of their larger weights, and the witness must pick those)"
                                % (show(val)[:40], show(asg)[:30]))
            else:
                errs.append("?a return of the driver is neither the search nor a (value, assignment) pair: %s" % show(x)[:50])
        if len(searches) == 1:
            dr = searches[0]
        if not mir.is_call(dr, sname) or len(dr[2]) != 6:
            errs.append("?driver does not end in a call of %s" % sname)
        else:
            a = [strip(x) for x in dr[2]]
            ucs = [x for x in mir.subterms(a[1]) if is_ucall(x, uname)]
            if not ucs:
                errs.append("?initial lower bound is not a value computed by %s" % uname)
            elif unclone(ucs[0][2][1]) != unclone(a[2]):
                errs.append("the initial lower bound is the value of %s but the initial best assignment is %s"
                            % (show(ucs[0][2][1])[:40], show(a[2])[:40]))
            if a[3] != ("param", 2):
                errs.append("the search is started on %s, not on the full list of query variables" % show(a[3])[:40])
            if has(a[5], lambda x: x == ("param", 2)):
                errs.append("the search does not start from the empty assignment")
        out.append(inst("BB", "%s:BB7:driver" % dfn.npath, verdict_of(errs), dfn, None,
                        "; ".join(e.lstrip("?") for e in errs) if errs else "lower bound = value of the initial best assignment; search from the empty assignment over all query variables"))
    return out


_FCONST = {"core::f64::<impl f64>::EPSILON": 2.220446049250313e-16, "core::f64::<impl f64>::MIN_POSITIVE": 2.2250738585072014e-308,
           "core::f64::<impl f64>::MAX": 1.7976931348623157e308, "core::f64::<impl f64>::INFINITY": float("inf"),
           "std::f64::EPSILON": 2.220446049250313e-16, "core::f64::EPSILON": 2.220446049250313e-16}


def _num_eval(t, env):
    """value of a small arithmetic / comparison term over f64 parameters, or None"""
    t = strip(t)
    if not isinstance(t, tuple) or not t:
        return None
    if t[0] == "param":
        return env.get(t[1])
    if t[0] == "constitem":
        return _FCONST.get(t[1])
    if t[0] == "const":
        v = str(t[2])
        for suf in ("f64", "f32", "_f64"):
            if v.endswith(suf):
                v = v[:-len(suf)]
        try:
            return float(v)
        except ValueError:
            return {"true": True, "false": False}.get(v)
    if t[0] == "field" and t[2] == "0":
        return _num_eval(t[1], env)          # RealSemiring(x).0 on a plain number
    if t[0] == "bin":
        a, b = _num_eval(t[2], env), _num_eval(t[3], env)
        if a is None or b is None:
            return None
        try:
            return {"Add": lambda: a + b, "Sub": lambda: a - b, "Mul": lambda: a * b, "Div": lambda: a / b,
                    "Gt": lambda: a > b, "Ge": lambda: a >= b, "Lt": lambda: a < b, "Le": lambda: a <= b,
                    "Eq": lambda: a == b, "Ne": lambda: a != b, "BitAnd": lambda: bool(a) and bool(b),
                    "BitOr": lambda: bool(a) or bool(b)}[t[1]]()
        except (KeyError, ZeroDivisionError):
            return None
    if t[0] == "un" and t[1] == "Not":
        a = _num_eval(t[2], env)
        return None if a is None else (not a)
    if t[0] == "un" and t[1] == "Neg":
        a = _num_eval(t[2], env)
        return None if a is None else -a
    if t[0] == "call" and t[1].name in ("abs", "max", "min") and not t[1].local:
        vs = [_num_eval(a, env) for a in t[2]]
        if any(v is None for v in vs):
            return None
        return abs(vs[0]) if t[1].name == "abs" else (max(vs) if t[1].name == "max" else min(vs))
    if t[0] in ("gamma",):
        c = _num_eval(t[1], env)
        if c is None:
            return None
        for lab, v in t[2]:
            truth = None if lab not in ("0", "1", ("not", ("0",)), ("not", ("1",))) else (lab in ("1", ("not", ("0",))))
            if truth is not None and truth == bool(c):
                return _num_eval(v, env)
        return None
    return None
