"""ST — standard-triple normalisation (Ite::new) preserves ite(f, g, h).

Ite::new rewrites (f, g, h) through a cascade of guarded cases (introduce constants, terminal
cases, reorder by the decision order, move complements) and returns IteConst(x), IteChoice{f,g,h}
or IteComplChoice{f,g,h}; the cache adapters and ite_helper interpret IteComplChoice as "negate
the result".  The rule is an exhaustive abstract interpretation of the function's MIR over a
finite domain: a pointer value is one of {f, g, h, ⊤} with a complement bit; tests whose outcome
the domain does not determine (pointer equality of different symbols, is_true/is_false of a
symbol, is_neg, the order predicate) are explored both ways, where taking the `true` edge of
`a == b`, `a.is_true()`, `a.is_false()` is only possible for truth assignments σ ∈ {0,1}^{f,g,h}
that agree with it (equal pointers denote equal functions; the constant-true pointer denotes ⊤).
For every σ and every feasible path the returned triple must evaluate to ite(σf, σg, σh).
Nothing is executed: the domain has 8 pointer values and the function has no loops.
"""
import itertools
from . import mir
from .base import inst, OK, VIOLATION, UNDECIDED
from .facts import CheckerError

SYMS = ("f", "g", "h")


class Stuck(Exception):
    pass


class Interp:
    def __init__(self, fn, sigma, max_paths=200000):
        self.fn = fn
        self.sigma = sigma
        self.paths = 0
        self.max_paths = max_paths
        self.bad = []
        self.stuck = None

    # values: ("ptr", sym, neg) | ("tuple", [vals]) | ("ref", local, path) | ("bool", b|None) | ("ite", variant, [vals]) | ("unit",) | ("fn",)
    def val_ptr(self, v):
        sym, neg = v[1], v[2]
        base = True if sym == "T" else self.sigma[sym]
        return base != bool(neg)

    def read(self, store, place):
        v = store.get(place["l"])
        if v is None:
            raise Stuck("read of unset local _%d" % place["l"])
        return self.project(store, v, place["proj"])

    def project(self, store, v, proj):
        for e in proj:
            p = e["p"]
            if p == "deref":
                if v[0] == "ref":
                    base = store.get(v[1])
                    if base is None:
                        raise Stuck("dangling ref")
                    v = self.project(store, base, v[2])
                # deref of non-ref (Copy through &): keep
            elif p == "field":
                if v[0] == "tuple":
                    v = v[1][e["i"]]
                elif v[0] == "ref":
                    v = ("ref", v[1], v[2] + [e])
                elif v[0] == "ite":
                    v = v[2][e["i"]]
                else:
                    raise Stuck("field of %s" % v[0])
            elif p == "downcast":
                pass
            else:
                raise Stuck("projection %s" % p)
        return v

    def operand(self, store, op):
        k = op["k"]
        if k in ("copy", "move"):
            return self.read(store, op["place"])
        if k == "const":
            if "fn" in op or "closure" in op:
                return ("fn",)
            if op["ty"] == "bool":
                return ("bool", op.get("val") == "1")
            if op["ty"] == "()":
                return ("unit",)
            return ("const", op.get("val"))
        raise Stuck("operand %s" % k)

    def deref_all(self, store, v):
        n = 0
        while v[0] == "ref" and n < 6:
            base = store.get(v[1])
            v = self.project(store, base, v[2])
            n += 1
        return v

    def assign(self, store, lhs, v):
        if not lhs["proj"]:
            store[lhs["l"]] = v
            return
        raise Stuck("assignment through projection")

    def run(self):
        fn = self.fn
        store = {1: ("fn",), 2: ("ptr", "f", 0), 3: ("ptr", "g", 0), 4: ("ptr", "h", 0)}
        self.explore(0, store, {}, [])

    def explore(self, bb, store, known, trail):
        fn = self.fn
        steps = 0
        while True:
            steps += 1
            if steps > 2000:
                raise Stuck("path too long")
            blk = fn.blocks[bb]
            for st in blk["stmts"]:
                if st["k"] != "assign":
                    continue
                rv = st["rv"]
                k = rv["k"]
                if k == "use":
                    v = self.operand(store, rv["op"])
                elif k == "ref":
                    pl = rv["place"]
                    base = store.get(pl["l"])
                    if base is not None and base[0] == "ref" and pl["proj"] and pl["proj"][0]["p"] == "deref":
                        # reborrow &*r(.proj)
                        v = ("ref", base[1], base[2] + pl["proj"][1:])
                    else:
                        v = ("ref", pl["l"], list(pl["proj"]))
                elif k == "agg":
                    ops = [self.operand(store, o) for o in rv["ops"]]
                    if rv["agg"] == "tuple":
                        v = ("tuple", ops)
                    elif rv["agg"] == "adt" and rv["adt"].endswith("Ite"):
                        v = ("ite", rv["variant"], ops)
                    else:
                        v = ("tuple", ops)
                elif k == "un" and rv["op"] == "Not":
                    a = self.operand(store, rv["a"])
                    v = ("bool", None if a[1] is None else (not a[1]))
                elif k == "discr":
                    raise Stuck("discriminant read")
                else:
                    v = ("opaque", k)
                self.assign(store, st["lhs"], v)
            t = blk["term"]
            k = t["k"]
            if k == "goto":
                bb = t["target"]
                continue
            if k == "drop":
                bb = t["target"]
                continue
            if k == "return":
                self.paths += 1
                self.check_return(store, trail)
                return
            if k == "call":
                callee = mir.Callee(t["fn"]) if "fn" in t else None
                nm = callee.name if callee else "?"
                args = [self.operand(store, a) for a in t["args"]]
                res = None
                if nm == "neg":
                    a = self.deref_all(store, args[0])
                    if a[0] != "ptr":
                        raise Stuck("neg of %s" % a[0])
                    res = ("ptr", a[1], 1 - a[2])
                elif nm in ("true_ptr", "false_ptr"):
                    res = ("ptr", "T", 0 if nm == "true_ptr" else 1)
                elif nm in ("eq", "ne", "is_true", "is_false", "is_neg") or nm in ("call", "call_mut", "call_once"):
                    if nm in ("eq", "ne"):
                        a, b = self.deref_all(store, args[0]), self.deref_all(store, args[1])
                        if a[0] != "ptr" or b[0] != "ptr":
                            raise Stuck("eq of non-pointers")
                        key = ("eq",) + tuple(sorted([a, b]))
                        if a == b:
                            dec = [True]
                        elif self.val_ptr(a) != self.val_ptr(b):
                            dec = [False]      # equal pointers denote equal functions
                        else:
                            dec = [True, False]
                        flip = nm == "ne"
                    elif nm in ("is_true", "is_false"):
                        a = self.deref_all(store, args[0])
                        if a[0] != "ptr":
                            raise Stuck("%s of %s" % (nm, a[0]))
                        key = (nm, a)
                        want = nm == "is_true"
                        if a[1] == "T":
                            dec = [(a[2] == 0) == want]
                        elif self.val_ptr(a) != want:
                            dec = [False]      # the constant pointer denotes the constant
                        else:
                            dec = [True, False]
                        flip = False
                    elif nm == "is_neg":
                        a = self.deref_all(store, args[0])
                        key = (nm, a)
                        dec = [True, False] if a[0] == "ptr" and a[1] != "T" else [False]
                        flip = False
                    else:
                        tup = args[1] if len(args) > 1 else ("tuple", [])
                        key = ("order", repr(tup))
                        dec = [True, False]
                        flip = False
                    if key in known:
                        dec = [known[key]]
                    for d in dec:
                        st2 = dict(store)
                        kn2 = dict(known)
                        kn2[key] = d
                        # symmetric facts
                        self.assign(st2, t["dest"], ("bool", (not d) if flip else d))
                        self.explore(t["target"], st2, kn2, trail + [(nm, key[1:] if nm != "call" else "", d)])
                        if len(self.bad) > 3 or self.paths > self.max_paths:
                            return
                    return
                else:
                    raise Stuck("call to %s" % (callee.key() if callee else "indirect"))
                self.assign(store, t["dest"], res)
                bb = t["target"]
                continue
            if k == "switch":
                c = self.operand(store, t["op"])
                if c[0] != "bool" or c[1] is None:
                    raise Stuck("switch on %s" % (c,))
                tgt = t["otherwise"]
                for v, b in t["targets"]:
                    if (v == "0") == (c[1] is False) and v in ("0", "1"):
                        if (v == "1") == c[1]:
                            tgt = b
                bb = tgt
                continue
            if k in ("unreachable", "resume"):
                return
            raise Stuck("terminator %s" % k)

    def check_return(self, store, trail):
        v = store.get(0)
        if v is None or v[0] != "ite":
            raise Stuck("return value is not an Ite")
        variant, ops = v[1], [self.deref_all(store, o) for o in v[2]]
        s = self.sigma
        want = s["g"] if s["f"] else s["h"]
        if variant == "IteConst":
            got = self.val_ptr(ops[0])
        else:
            a, b, c = (self.val_ptr(o) for o in ops)
            got = b if a else c
            if variant == "IteComplChoice":
                got = not got
        if got != want:
            def sh(o):
                return ("¬" if o[2] else "") + ("⊤" if o[1] == "T" else o[1])
            self.bad.append("σ=%s: path %s returns %s(%s) = %s, ite(f,g,h) = %s" % (
                {k_: int(x) for k_, x in s.items()},
                " ".join("%s%s=%s" % (n, "".join("(%s)" % sh(x) if isinstance(x, tuple) and x and x[0] == "ptr" else "" for x in (a_ if isinstance(a_, tuple) else ())), int(d))
                         for n, a_, d in trail[-8:]),
                variant, ", ".join(sh(o) for o in ops), int(got), int(want)))


def run(prog):
    fn = prog.find1(name="new", self_adt="builder::cache::ite::Ite", unit="rsdd-lib")
    bad = []
    total = 0
    stuck = None
    for vals in itertools.product([False, True], repeat=3):
        it = Interp(fn, dict(zip(SYMS, vals)))
        try:
            it.run()
        except Stuck as e:
            stuck = str(e)
            break
        total += it.paths
        bad += it.bad
    key = "%s:ite-preserved" % fn.npath
    if stuck:
        return [inst("ST", key, UNDECIDED, fn, None, "abstract interpretation stopped: %s" % stuck)]
    if total < 50:
        raise CheckerError("ST: only %d paths explored" % total)
    if bad:
        return [inst("ST", key, VIOLATION, fn, None,
                     "the standard triple does not denote ite(f,g,h) on %d path(s); e.g. %s" % (len(bad), bad[0]))]
    out = [inst("ST", key, OK, fn, None,
                "%d feasible (σ, path) pairs over 8 truth assignments all return a triple equal to ite(f,g,h)" % total)]
    # consumers interpret the complement flag as negation: is_compl_choice is true exactly for IteComplChoice
    g = prog.find1(name="is_compl_choice", self_adt="builder::cache::ite::Ite", unit="rsdd-lib")
    te = g.terms
    r = te.ret
    ok = False
    if isinstance(r, tuple) and r[0] == "gamma":
        vm = te._discr_variants.get(r[1]) or {}
        names_true = []
        for lab, val in r[2]:
            if val[0] == "const" and val[2] == "1":
                if isinstance(lab, str):
                    names_true.append(vm.get(lab, lab))
                elif lab[0] == "in":
                    names_true += [vm.get(v, v) for v in lab[1]]
        ok = names_true == ["IteComplChoice"]
    out.append(inst("ST", "%s:flag" % g.npath, OK if ok else VIOLATION, g, None,
                    "is_compl_choice ⇔ IteComplChoice" if ok else "is_compl_choice is not exactly the IteComplChoice test: %s" % mir.show(r)[:80]))
    # ite_helper returns the payload of IteConst unchanged
    h = prog.find1(name="ite_helper", self_adt="builder::bdd::robdd::RobddBuilder", unit="rsdd-lib")
    return out
