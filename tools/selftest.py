#!/usr/bin/env python3
"""Checker self-test (DESIGN.md §6): applies each case of selftest/cases.py to a scratch copy of
/repo (outside /repo and /verif, deleted afterwards), runs the driver and the case's rule on the
copy and checks that the rule fires on the named instance (breaking cases) or stays silent with
the property check passing (preserving cases).

  python3 tools/selftest.py [--only substr] [--rule RULE] [--prop Cxx] [--json out.json]
exit 0 when every selected case behaves as expected.
"""
import argparse
import json
import os
import shutil
import subprocess
import sys
import tempfile
import time

V = os.path.dirname(os.path.dirname(os.path.abspath(__file__)))
sys.path.insert(0, V)
from rules import facts, mir  # noqa: E402
from rules.registry import PROPS, RULES  # noqa: E402
from rules.facts import CheckerError  # noqa: E402
from selftest.cases import CASES  # noqa: E402


def make_copy():
    d = tempfile.mkdtemp(prefix="rsdd-selftest.")
    dst = os.path.join(d, "repo")
    # copy the current working tree (tracked + untracked sources), without build output or .git
    # RSDD_COPY_FROM: a snapshot of the clean tree, so that this development tool can run while seeded.py has /repo patched
    src = os.environ.get("RSDD_COPY_FROM", facts.REPO)
    subprocess.run(["rsync", "-a", "--exclude", "target", "--exclude", ".git", src + "/", dst + "/"], check=True)
    return d, dst


KNOWN_KEYS = {(k["property"], k["key"]) for k in json.load(open(os.path.join(V, "known_findings.json")))["findings"]
              if k.get("status") == "known"}


def prop_status(pid, prog):
    """(#new violations, floor error or None) of a property on prog, without touching evidence files"""
    spec = PROPS[pid]
    nv = 0
    ferr = None
    cache = prop_status.cache
    for rid, floor, sel in spec["rules"]:
        if rid not in cache:
            cache[rid] = RULES[rid]["run"](prog)
        res = [r for r in cache[rid] if sel is None or sel(r)]
        dec = [r for r in res if r["verdict"] in ("ok", "violation")]
        nv += sum(1 for r in res if r["verdict"] == "violation" and (pid, r["key"]) not in KNOWN_KEYS)
        if len(dec) < floor:
            ferr = "floor %s %d<%d" % (rid, len(dec), floor)
    return nv, ferr


def run_case(case, dst):
    path = os.path.join(dst, case["file"])
    src = open(path).read()
    if case.get("rename"):
        import re as _re
        new = src
        for a_, b_ in case["rename"]:
            if not _re.search(r"\b%s\b" % _re.escape(a_), new):
                return dict(name=case["name"], ok=False, why="identifier %s not found in %s (case out of date)" % (a_, case["file"]))
            new = _re.sub(r"\b%s\b" % _re.escape(a_), b_, new)
        case = dict(case, old=src, new=new)
    if src.count(case["old"]) != 1:
        return dict(name=case["name"], ok=False, why="anchor text occurs %d times in %s (case out of date)" % (src.count(case["old"]), case["file"]))
    new = src.replace(case["old"], case["new"])
    if case.get("extra_use") and case["extra_use"] not in new:
        new = case["extra_use"] + new
    open(path, "w").write(new)
    saved = []
    for (f2, old2, new2) in case.get("more", []):
        p2 = os.path.join(dst, f2)
        s2 = open(p2).read()
        if s2.count(old2) != 1:
            for (pp, ss) in reversed(saved):
                open(pp, "w").write(ss)
            open(path, "w").write(src)
            return dict(name=case["name"], ok=False, why="anchor text occurs %d times in %s (case out of date)" % (s2.count(old2), f2))
        saved.append((p2, s2))
        open(p2, "w").write(s2.replace(old2, new2))
    t0 = time.time()
    try:
        try:
            f, meta = facts.run_driver(repo=dst)
        except CheckerError as e:
            return dict(name=case["name"], ok=False, why="variant does not compile: %s" % str(e)[-400:])
        prog = mir.Program(f, meta)
        prop_status.cache = {}
        try:
            res = RULES[case["rule"]]["run"](prog)
            prop_status.cache[case["rule"]] = res
        except CheckerError as e:
            return dict(name=case["name"], ok=False, why="rule raised checker error: %s" % e)
        viol = [r for r in res if r["verdict"] == "violation"]
        out = dict(name=case["name"], rule=case["rule"], secs=round(time.time() - t0, 1))
        if case["expect"] is None:
            bad = []
            for pid in case["props"]:
                nv, ferr = prop_status(pid, prog)
                if nv or ferr:
                    bad.append("%s: %d violations %s" % (pid, nv, ferr or ""))
            out["ok"] = not bad
            out["why"] = "; ".join(bad) + (" e.g. " + viol[0]["key"] + " — " + viol[0]["detail"][:160] if viol else "") if bad else "silent, properties %s still pass" % case["props"]
        else:
            hit = [r for r in viol if case["expect"] in r["key"]]
            out["ok"] = bool(hit)
            if hit:
                out["why"] = "fires: %s — %s" % (hit[0]["key"], hit[0]["detail"][:140])
                missed = [pid for pid in case["props"] if prop_status(pid, prog)[0] == 0]
                if missed:
                    out["ok"] = False
                    out["why"] += " BUT property check(s) %s do not select this instance" % missed
            else:
                out["why"] = "rule %s reported no violation containing %r (violations: %s)" % (
                    case["rule"], case["expect"], [r["key"] for r in viol][:4])
        return out
    finally:
        for (pp, ss) in reversed(saved):
            open(pp, "w").write(ss)
        open(path, "w").write(src)


def main():
    ap = argparse.ArgumentParser()
    ap.add_argument("--only")
    ap.add_argument("--rule")
    ap.add_argument("--prop")
    ap.add_argument("--json")
    a = ap.parse_args()
    cases = [c for c in CASES if (not a.only or a.only in c["name"]) and (not a.rule or c["rule"] == a.rule)
             and (not a.prop or a.prop in c["props"])]
    d, dst = make_copy()
    results = []
    try:
        for c in cases:
            r = run_case(c, dst)
            results.append(r)
            print("%-4s %-40s %s" % ("ok" if r["ok"] else "FAIL", r["name"], r["why"][:230]))
            sys.stdout.flush()
    finally:
        shutil.rmtree(d, ignore_errors=True)
    if a.json:
        json.dump(results, open(a.json, "w"), indent=1)
    bad = [r for r in results if not r["ok"]]
    print("selftest: %d/%d cases behave as expected" % (len(results) - len(bad), len(results)))
    return 1 if bad else 0


if __name__ == "__main__":
    sys.exit(main())
