#!/usr/bin/env python3
"""dev helper: apply a (claimed behaviour-preserving) patch to a scratch copy of /repo and run every property check
on it, with floors.  Prints SILENT, or the violations / undecided instances / floor and checker errors it causes."""
import os, shutil, subprocess, sys
V = os.path.dirname(os.path.dirname(os.path.abspath(__file__)))
sys.path.insert(0, V)
from rules import facts, mir
from rules.facts import CheckerError
from rules.registry import PROPS, RULES
from tools.selftest import make_copy, KNOWN_KEYS
rc = 0
for patch in sys.argv[1:]:
    patch = os.path.abspath(patch)
    d, dst = make_copy()
    try:
        r = subprocess.run(["git", "apply", "--unsafe-paths", "--directory=" + dst, patch], capture_output=True, text=True, cwd="/")
        if r.returncode:
            print(patch, "PATCH-FAILED", r.stderr[:200]); rc = 2; continue
        try:
            f, m = facts.run_driver(repo=dst)
        except CheckerError as e:
            print(patch, "DOES-NOT-COMPILE", str(e)[-300:]); rc = 2; continue
        prog = mir.Program(f, m)
        cache, problems = {}, []
        for pid, spec in sorted(PROPS.items()):
            for rid, floor, sel in spec["rules"]:
                if rid not in cache:
                    try:
                        cache[rid] = RULES[rid]["run"](prog)
                    except CheckerError as e:
                        cache[rid] = ("ERR", str(e))
                if isinstance(cache[rid], tuple):
                    problems.append("%s: rule %s checker error: %s" % (pid, rid, cache[rid][1][:160]))
                    continue
                res = [x for x in cache[rid] if sel is None or sel(x)]
                for x in res:
                    if x["verdict"] == "violation" and (pid, x["key"]) not in KNOWN_KEYS:
                        problems.append("%s: VIOLATION %s — %s" % (pid, x["key"], x["detail"][:160]))
                dec = [x for x in res if x["verdict"] in ("ok", "violation")]
                if len(dec) < floor:
                    und = [x["key"] + " (" + x["detail"][:80] + ")" for x in res if x["verdict"] == "undecided"]
                    problems.append("%s: FLOOR %s decided %d < %d; undecided: %s" % (pid, rid, len(dec), floor, und[:3]))
        name = "/".join(patch.split("/")[-2:])
        if problems:
            rc = 1
            seen = set()
            print(name, "NOT SILENT (%d)" % len(problems))
            for p_ in problems:
                k = p_.split(": ", 1)[1]
                if k in seen:
                    continue
                seen.add(k)
                print("   ", p_)
        else:
            print(name, "SILENT")
    finally:
        shutil.rmtree(d, ignore_errors=True)
sys.exit(rc)
