#!/usr/bin/env python3
"""Regenerate MANIFEST.json from rules/registry.py (claimed checks) + tools/not_applicable.json."""
import json, os, sys
V = os.path.dirname(os.path.dirname(os.path.abspath(__file__)))
sys.path.insert(0, V)
from rules.registry import PROPS
props = [json.loads(l) for l in open(os.path.join(V, "properties.jsonl"))]
na = json.load(open(os.path.join(V, "tools", "not_applicable.json")))
checks = []
for p in props:
    pid = p["id"]
    if pid not in PROPS:
        continue
    s = PROPS[pid]
    checks.append({
        "property_id": pid,
        "quick_cmd": "python3 check.py %s --tier quick" % pid,
        "thorough_cmd": "python3 check.py %s --tier thorough" % pid,
        "evidence_file": "evidence/%s.json" % pid,
        "replay_cmd_template": "python3 check.py %s --replay {path}" % pid,
        "engine": "rsdd-sa",
        "level_claimed": {"category": s["level"], "text": s["claim"] if "claim" in s else s["explanation"],
                          "design_ref": "DESIGN.md §4 " + pid},
        "level_note": "; ".join(s.get("assumptions", [])) or "trusted: rustc front end + MIR, driver dump, frozen rule tables",
        "technique": s.get("technique", "static analysis: repo-specific rules over rustc MIR (resolved callees, CFG dominance, def-use terms)"),
    })
m = {
    "version": 1,
    "setup_cmd": "cd sa && CARGO_NET_OFFLINE=true cargo +nightly build --release --offline",
    "hooks": {
        "guard": "rsdd_verif",
        "enable": "no hooks are used; checks analyse /repo as it is (cargo +nightly check with the rsdd-sa rustc_private driver as RUSTC_WORKSPACE_WRAPPER)",
        "baseline_off_cmd": "cd /repo && cargo test --workspace --no-fail-fast --offline",
        "source_commits": [],
        "add_only": True,
    },
    "engines": [{"name": "rsdd-sa", "path": "sa/ + rules/ + check.py",
                 "serves_properties": [c["property_id"] for c in checks],
                 "kind_free_text": "rustc_private driver dumping resolved MIR facts; Python rule engine (CFG, dominators, gated def-use terms, finite abstract domains)"}],
    "checks": checks,
    "notes": "static analysis only; see DESIGN.md. exit 2 from a check = checker error (fail closed), never a claimed violation.",
    "not_applicable": [x for x in na if x["property_id"] not in PROPS],
}
json.dump(m, open(os.path.join(V, "MANIFEST.json"), "w"), indent=1)
print("claimed:", [c["property_id"] for c in checks])
print("not_applicable:", [x["property_id"] for x in m["not_applicable"]])
