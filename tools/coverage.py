#!/usr/bin/env python3
"""dev helper: functions of the library (>= N MIR blocks, tests excluded) that no rule instance names, per file"""
import os, sys, collections
V = os.path.dirname(os.path.dirname(os.path.abspath(__file__)))
sys.path.insert(0, V)
from rules import explore
from rules.registry import RULES
src = sys.argv[1] if len(sys.argv) > 1 else "run"
N = int(sys.argv[2]) if len(sys.argv) > 2 else 6
prog = explore.load(src)
named = collections.Counter()
keys = []
for rid, r in RULES.items():
    try:
        for x in r["run"](prog):
            if x.get("fn"):
                named[x["fn"]] += 1
            keys.append(x["key"])
    except Exception as e:
        print("rule", rid, "failed", e)
allkeys = "\n".join(keys)
byfile = collections.defaultdict(list)
for fn in prog.lib_fns:
    if len(fn.blocks) < N or "::test" in fn.npath or fn.name.startswith("test") or "tests::" in fn.npath:
        continue
    top = fn.npath.split("::{closure")[0]
    if named.get(fn.npath) or named.get(top) or top in allkeys:
        continue
    byfile[fn.loc().split(":")[0]].append((len(fn.blocks), fn.npath))
for f in sorted(byfile):
    print(f)
    for n, p in sorted(byfile[f], reverse=True):
        print("   %3d  %s" % (n, p))
