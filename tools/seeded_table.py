#!/usr/bin/env python3
"""Merge seeded/HISTORY.json into each seeded/<id>/meta.json and print the DESIGN.md §10 table."""
import json, os, sys
V = os.path.dirname(os.path.dirname(os.path.abspath(__file__)))
H = json.load(open(os.path.join(V, "seeded", "HISTORY.json")))
FLAKY = {"C06-m1": "existing quickcheck suite failed once and passed on re-run with the change applied",
         "C17-m2": "existing quickcheck suite failed once and passed on re-run with the change applied",
         "C04-r2m1": "its author measured ~3% failures of qc_sdd_canonicity with the change applied (0/40 without); passed when confirmed here"}
rows = []
for sid in sorted(k for k in H if not k.startswith("_")):
    d = os.path.join(V, "seeded", sid)
    m = json.load(open(os.path.join(d, "meta.json")))
    h = H[sid]
    m["change"] = h["change"]
    m["what_it_needs"] = h["needs"]
    m["history"] = h["history"]
    m["history_note"] = h["by"]
    if sid in FLAKY:
        m["suite_note"] = FLAKY[sid]
    json.dump(m, open(os.path.join(d, "meta.json"), "w"), indent=1)
    fired = m.get("checks_fired", {})
    own = m["property"]
    keys = fired.get(own) or next(iter(fired.values()), [])
    others = sorted(k for k in fired if k not in (own, "CHECKER-ERROR"))
    rule = keys[0].split(":")[0] if keys else "—"
    rows.append((sid, h["change"], h["needs"], ("**%s**" % own if own in fired else "—") + ((" +" + ",".join(others)) if others else ""),
                 h["by"], h["history"]))
import io
buf = io.StringIO()
_print = print
def print(*a):  # noqa
    _print(*a, file=buf)
print("| id | change | needs | checks that fire (own property bold) | deciding rule | history |")
print("|---|---|---|---|---|---|")
for r in rows:
    print("| " + " | ".join(x.replace("|", "/") for x in r) + " |")
from collections import Counter
c = Counter(r[5] for r in rows)
print()
print("Totals: %d changes; %s." % (len(rows), ", ".join("%s %d" % kv for kv in sorted(c.items()))))

text = buf.getvalue()
if "--write-design" in sys.argv:
    dp = os.path.join(V, "DESIGN.md")
    d = open(dp).read()
    a, b = d.index("<!-- SEEDED-TABLE-BEGIN -->"), d.index("<!-- SEEDED-TABLE-END -->")
    d = d[:a] + "<!-- SEEDED-TABLE-BEGIN -->\n" + text + d[b:]
    open(dp, "w").write(d)
    _print("DESIGN.md §10 table rewritten (%d rows)" % len(rows))
else:
    _print(text)
