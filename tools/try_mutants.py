#!/usr/bin/env python3
"""dev helper: every patch in preserving/_mutants/ (a behaviour-preserving refactoring plus a one-token mutation)
must be reported as a violation by at least one property check.  Prints DETECTED / MISSED per mutant."""
import glob, os, shutil, subprocess, sys
V = os.path.dirname(os.path.dirname(os.path.abspath(__file__)))
sys.path.insert(0, V)
from rules import facts, mir
from rules.registry import PROPS, RULES
from tools.selftest import make_copy, KNOWN_KEYS

paths = sys.argv[1:] or sorted(glob.glob(os.path.join(V, "preserving", "_mutants", "*.diff")))
missed = 0
for patch in paths:
    patch = os.path.abspath(patch)
    d, dst = make_copy()
    try:
        r = subprocess.run(["git", "apply", "--unsafe-paths", "--directory=" + dst, patch], capture_output=True, text=True, cwd="/")
        if r.returncode:
            print("%-28s PATCH FAILED %s" % (os.path.basename(patch), r.stderr[:100]))
            missed += 1
            continue
        try:
            f, m = facts.run_driver(repo=dst)
        except Exception as e:
            print("%-28s DOES NOT COMPILE" % os.path.basename(patch))
            missed += 1
            continue
        prog = mir.Program(f, m)
        cache, hits = {}, {}
        for pid, spec in sorted(PROPS.items()):
            for rid, floor, sel in spec["rules"]:
                if rid not in cache:
                    try:
                        cache[rid] = RULES[rid]["run"](prog)
                    except Exception as e:
                        cache[rid] = []
                for x in cache[rid]:
                    if x["verdict"] == "violation" and (sel is None or sel(x)) and (pid, x["key"]) not in KNOWN_KEYS:
                        hits.setdefault(pid, x["key"])
        if hits:
            print("%-28s DETECTED %s" % (os.path.basename(patch), "; ".join("%s %s" % (k, v.split(":")[0] + ":" + v.split(":")[-1]) for k, v in sorted(hits.items()))[:150]))
        else:
            print("%-28s MISSED" % os.path.basename(patch))
            missed += 1
    finally:
        shutil.rmtree(d, ignore_errors=True)
print("mutants: %d, missed: %d" % (len(paths), missed))
sys.exit(1 if missed else 0)
