#!/usr/bin/env python3
"""dev helper: run every stored seeded change (or the ids given) against all property checks, each on its own scratch
copy of /repo, N at a time.  /repo itself is never touched.  Prints per change: own-property detection, other
properties that fire, floors missed (fail-closed) and rule errors.

  seeded_par.py [-j N] [--write] [ids ...]      --write updates meta.json (checks_fired, detected_by_own_property_check)
  seeded_par.py --worker <patch>                 (internal) prints one JSON line
"""
import json, os, shutil, subprocess, sys
from concurrent.futures import ThreadPoolExecutor
V = os.path.dirname(os.path.dirname(os.path.abspath(__file__)))
sys.path.insert(0, V)


def worker(patch):
    from rules import facts, mir
    from rules.facts import CheckerError
    from rules.registry import PROPS, RULES
    from tools.selftest import make_copy, KNOWN_KEYS
    d, dst = make_copy()
    out = {"fired": {}, "floors": {}, "errors": []}
    try:
        r = subprocess.run(["git", "apply", "--unsafe-paths", "--directory=" + dst, patch], capture_output=True, text=True, cwd="/")
        if r.returncode:
            out["errors"].append("PATCH-FAILED " + r.stderr[:200])
            return out
        try:
            f, m = facts.run_driver(repo=dst)
        except CheckerError as e:
            out["errors"].append("DOES-NOT-COMPILE " + str(e)[-300:])
            return out
        prog = mir.Program(f, m)
        cache = {}
        for pid, spec in sorted(PROPS.items()):
            for rid, floor, sel in spec["rules"]:
                if rid not in cache:
                    try:
                        cache[rid] = RULES[rid]["run"](prog)
                    except Exception as e:
                        cache[rid] = ("ERR", "%s: %s" % (type(e).__name__, str(e)[:200]))
                        out["errors"].append("rule %s: %s" % (rid, cache[rid][1]))
                if isinstance(cache[rid], tuple):
                    out["floors"].setdefault(pid, []).append("%s error" % rid)
                    continue
                res = [x for x in cache[rid] if sel is None or sel(x)]
                for x in res:
                    if x["verdict"] == "violation" and (pid, x["key"]) not in KNOWN_KEYS:
                        out["fired"].setdefault(pid, []).append(x["key"])
                dec = [x for x in res if x["verdict"] in ("ok", "violation")]
                if len(dec) < floor:
                    out["floors"].setdefault(pid, []).append("%s %d<%d" % (rid, len(dec), floor))
        return out
    finally:
        shutil.rmtree(d, ignore_errors=True)


def main():
    args = sys.argv[1:]
    if args and args[0] == "--worker":
        print("@@" + json.dumps(worker(os.path.abspath(args[1]))))
        return 0
    j, write = 8, False
    if args and args[0] == "-j":
        j = int(args[1]); args = args[2:]
    if args and args[0] == "--write":
        write = True; args = args[1:]
    sd = os.path.join(V, "seeded")
    ids = args or sorted(x for x in os.listdir(sd) if os.path.isdir(os.path.join(sd, x)))

    def one(sid):
        p = os.path.join(sd, sid, "patch.diff")
        r = subprocess.run([sys.executable, os.path.abspath(__file__), "--worker", p], capture_output=True, text=True)
        for line in r.stdout.splitlines():
            if line.startswith("@@"):
                return sid, json.loads(line[2:])
        return sid, {"fired": {}, "floors": {}, "errors": ["worker died: " + (r.stderr or r.stdout)[-300:]]}
    missed = []
    with ThreadPoolExecutor(j) as ex:
        for sid, res in ex.map(one, ids):
            meta = json.load(open(os.path.join(sd, sid, "meta.json")))
            own = meta["property"]
            alt = meta.get("breaks_instead")  # a change seeded for one property that in fact breaks another
            hit = own in res["fired"] or (alt and alt in res["fired"])
            print("%-10s own=%-5s others=%s %s%s%s" % (
                sid, bool(hit), ",".join(k for k in sorted(res["fired"]) if k != own) or "-",
                (res["fired"].get(own) or res["fired"].get(alt) or [""])[0][:90],
                ("  FLOORS " + json.dumps(res["floors"])[:160]) if res["floors"] else "",
                ("  ERRORS " + "; ".join(res["errors"])[:200]) if res["errors"] else ""), flush=True)
            if not hit:
                missed.append(sid)
            if write:
                meta["checks_fired"] = res["fired"]
                meta["detected_by_own_property_check"] = own in res["fired"]
                meta["detected_by_any_check"] = bool(res["fired"])
                if res["floors"]:
                    meta["fails_closed"] = res["floors"]
                else:
                    meta.pop("fails_closed", None)
                json.dump(meta, open(os.path.join(sd, sid, "meta.json"), "w"), indent=1)
    print("changes: %d, not reported by own property's check: %d %s" % (len(ids), len(missed), missed))
    return 0


if __name__ == "__main__":
    sys.exit(main())
