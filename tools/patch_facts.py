#!/usr/bin/env python3
"""dev helper: apply a patch to a scratch copy of /repo, run the driver, keep the fact files in <outdir>"""
import os, shutil, subprocess, sys, json
V = os.path.dirname(os.path.dirname(os.path.abspath(__file__)))
sys.path.insert(0, V)
from rules import facts
from tools.selftest import make_copy
patch, outdir = os.path.abspath(sys.argv[1]), sys.argv[2]
d, dst = make_copy()
try:
    r = subprocess.run(["git", "apply", "--unsafe-paths", "--directory=" + dst, patch], capture_output=True, text=True, cwd="/")
    if r.returncode:
        print("patch failed", r.stderr); sys.exit(2)
    f, m = facts.run_driver(repo=dst)
    os.makedirs(outdir, exist_ok=True)
    for n, j in f.items():
        json.dump(j, open(os.path.join(outdir, n), "w"))
    print("facts in", outdir)
finally:
    shutil.rmtree(d, ignore_errors=True)
