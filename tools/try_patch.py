#!/usr/bin/env python3
"""dev helper: apply a patch to a scratch copy of /repo, run the driver there, run all property checks (no evidence)"""
import os, shutil, subprocess, sys
V = os.path.dirname(os.path.dirname(os.path.abspath(__file__)))
sys.path.insert(0, V)
from rules import facts, mir
from rules.registry import PROPS, RULES
from tools.selftest import make_copy, KNOWN_KEYS
patch = os.path.abspath(sys.argv[1])
d, dst = make_copy()
try:
    r = subprocess.run(["git", "apply", "--unsafe-paths", "--directory=" + dst, patch], capture_output=True, text=True, cwd="/")
    if r.returncode:
        r = subprocess.run(["patch", "-p1", "-i", patch], cwd=dst, capture_output=True, text=True)
        if r.returncode:
            print("patch failed", r.stdout, r.stderr); sys.exit(2)
    f, m = facts.run_driver(repo=dst)
    prog = mir.Program(f, m)
    cache = {}
    for pid, spec in sorted(PROPS.items()):
        hits = []
        for rid, floor, sel in spec["rules"]:
            if rid not in cache:
                try:
                    cache[rid] = RULES[rid]["run"](prog)
                except Exception as e:
                    cache[rid] = []
                    print("rule", rid, "error:", str(e)[:200])
            hits += [x for x in cache[rid] if x["verdict"] == "violation" and (sel is None or sel(x)) and (pid, x["key"]) not in KNOWN_KEYS]
        if hits:
            print(pid, "VIOLATED:", "; ".join("%s — %s" % (h["key"], h["detail"][:120]) for h in hits[:3]))
finally:
    shutil.rmtree(d, ignore_errors=True)
