#!/usr/bin/env python3
"""Handle independently seeded changes (written by sub-agents that saw only a property text).

  seeded.py confirm <Cxx> <k>      confirm in a scratch worktree: builds, existing suite passes with the
                                   change, the demonstration fails with it and passes without it; on success
                                   store it as /verif/seeded/<Cxx>-m<k>/ (patch.diff, demo.rs, README.md, meta.json)
  seeded.py check [<id> ...]       apply each stored patch to /repo, run the quick check of every claimed
                                   property, record which checks fire, undo (`git -C /repo checkout -- .`)
"""
import json
import os
import re
import shutil
import subprocess
import sys
import time

V = os.path.dirname(os.path.dirname(os.path.abspath(__file__)))
REPO = "/repo"
SEED_OUT = os.environ.get("SEED_OUT", "/tmp/seed-out")


def sh(cmd, cwd=None, timeout=3600, env=None):
    e = dict(os.environ, CARGO_NET_OFFLINE="true")
    if env:
        e.update(env)
    r = subprocess.run(cmd, cwd=cwd, shell=isinstance(cmd, str), capture_output=True, text=True, timeout=timeout, env=e)
    return r.returncode, r.stdout + r.stderr


def demo_placement(demo_src):
    first = demo_src.splitlines()[0] if demo_src else ""
    m = re.search(r"place at\s+(\S+)", first)
    if m:
        return "file", m.group(1).rstrip(".,;)")
    m = re.search(r"append to\s+(\S+)", first)
    if m:
        return "append", m.group(1).rstrip(".,;)")
    return "file", "tests/seed_demo.rs"


def demo_features(demo_src):
    m = re.search(r"--features[ =]([a-z,]+)", "\n".join(demo_src.splitlines()[:6]))
    return m.group(1) if m else None


def run_tests(wt, what, feats=None):
    """what = 'suite' | ('file', path) | ('append', path, names)"""
    if what == "suite":
        rc, out = sh("cargo test --workspace --no-fail-fast --offline 2>&1 | grep -E '^test result|FAILED|panicked' | head -30", cwd=wt)
        ok = "FAILED" not in out and "failed" not in out.replace("0 failed", "") and "test result: ok" in out
        return ok, out[-1500:]
    kind, path = what[0], what[1]
    if kind == "file":
        name = os.path.splitext(os.path.basename(path))[0]
        rc, out = sh("cargo test --offline %s --test %s 2>&1 | tail -40" % (("--features " + feats) if feats else "", name), cwd=wt)
    else:
        fl = ("--features " + feats) if feats else ""
        rc, out = sh("cargo test --offline %s --lib seed 2>&1 | tail -40" % fl, cwd=wt)
        if "running 0 tests" in out:
            rc, out = sh("cargo test --offline %s --lib 2>&1 | tail -40" % fl, cwd=wt)
    ok = "test result: ok" in out and "FAILED" not in out
    ran = re.findall(r"test result: \w+\. (\d+) passed; (\d+) failed", out)
    return ok, out[-1500:], ran


def confirm(pid, k):
    src = os.path.join(SEED_OUT, pid)
    pre = ("m%s" % k) if str(k).isdigit() else str(k)
    patch = os.path.join(src, "%s.patch.diff" % pre)
    demo = os.path.join(src, "%s.demo.rs" % pre)
    readme = os.path.join(src, "%s.README.md" % pre)
    if not (os.path.exists(patch) and os.path.exists(demo)):
        print("missing files for %s m%s" % (pid, k))
        return 2
    wt = "/tmp/confirm-%s-%s" % (pid, pre)
    sh(["git", "-C", REPO, "worktree", "remove", "--force", wt])
    rc, out = sh(["git", "-C", REPO, "worktree", "add", "-q", wt, "HEAD"])
    if rc:
        print(out)
        return 2
    meta = {"id": "%s-%s" % (pid, pre), "property": pid, "confirmed_at_repo_commit": sh(["git", "-C", REPO, "rev-parse", "--short", "HEAD"])[1].strip()}
    try:
        shutil.copy(os.path.join(REPO, "Cargo.lock"), wt)
        demo_src = open(demo).read()
        kind, path = demo_placement(demo_src)
        target = os.path.join(wt, path)

        def place_demo():
            if kind == "file":
                os.makedirs(os.path.dirname(target), exist_ok=True)
                open(target, "w").write(demo_src)
            else:
                open(target, "a").write("\n" + demo_src)
        # 1. without the change: demo passes
        place_demo()
        feats = demo_features(demo_src)
        meta["demo_features"] = feats
        ok0, out0, ran0 = run_tests(wt, (kind, path), feats)
        meta["demo_passes_without_change"] = bool(ok0)
        meta["demo_tests_run"] = ran0
        # 2. with the change
        rc, out = sh(["git", "apply", patch], cwd=wt)
        if rc:
            print("patch does not apply:", out)
            meta["applies"] = False
            return 1
        meta["applies"] = True
        ok1, out1, ran1 = run_tests(wt, (kind, path), feats)
        meta["demo_fails_with_change"] = not ok1 and ("FAILED" in out1 or "panicked" in out1 or "failed" in out1)
        meta["demo_output_with_change_tail"] = out1[-600:]
        # 3. existing suite with the change (demo removed)
        if kind == "file":
            os.unlink(target)
        else:
            sh(["git", "checkout", "--", path], cwd=wt)
            sh(["git", "apply", patch], cwd=wt)
        rc, outb = sh("cargo build --offline --features ffi,cli --all-targets 2>&1 | grep -E '^(error|warning: unused)|Finished' | tail -5", cwd=wt)
        meta["builds_all_features"] = "Finished" in outb and "error" not in outb
        oks, outs = run_tests(wt, "suite")
        meta["existing_suite_passes_with_change"] = bool(oks)
        meta["existing_suite_tail"] = outs[-400:]
        good = meta["demo_passes_without_change"] and meta["demo_fails_with_change"] and meta["existing_suite_passes_with_change"] and meta["builds_all_features"]
        meta["kept"] = bool(good)
        print(json.dumps({k_: v for k_, v in meta.items() if "tail" not in k_}, indent=1))
        if not meta["existing_suite_passes_with_change"]:
            print("SUITE OUTPUT:\n" + meta["existing_suite_tail"])
        if good:
            dst = os.path.join(V, "seeded", meta["id"])
            os.makedirs(dst, exist_ok=True)
            shutil.copy(patch, os.path.join(dst, "patch.diff"))
            shutil.copy(demo, os.path.join(dst, "demo.rs"))
            if os.path.exists(readme):
                shutil.copy(readme, os.path.join(dst, "README.md"))
            meta["what_it_needs"] = "see README.md"
            meta["ran"] = ["git worktree add (scratch)", "cargo test --test/--lib <demo> without the change (passes)",
                           "git apply patch.diff; same demo (fails)", "cargo build --offline --features ffi,cli --all-targets",
                           "cargo test --workspace --no-fail-fast --offline with the change (passes)"]
            json.dump(meta, open(os.path.join(dst, "meta.json"), "w"), indent=1)
        return 0 if good else 1
    finally:
        sh(["git", "-C", REPO, "worktree", "remove", "--force", wt])
        shutil.rmtree(wt, ignore_errors=True)
        sh(["git", "-C", REPO, "worktree", "prune"])


def check(ids):
    sys.path.insert(0, V)
    from rules.registry import PROPS
    sd = os.path.join(V, "seeded")
    ids = ids or sorted(os.listdir(sd))
    rc, st = sh(["git", "-C", REPO, "status", "--porcelain"])
    if st.strip():
        print("refusing: /repo has uncommitted changes:\n" + st)
        return 2
    summary = {}
    for sid in ids:
        d = os.path.join(sd, sid)
        if not os.path.isdir(d):
            continue
        meta = json.load(open(os.path.join(d, "meta.json")))
        rc, out = sh(["git", "-C", REPO, "apply", os.path.join(d, "patch.diff")])
        if rc:
            print(sid, "patch does not apply to /repo:", out[:200])
            continue
        fired = {}
        try:
            t0 = time.time()
            rc, out = sh(["python3", os.path.join(V, "check.py"), "all", "--tier", "quick"], cwd=V, env={"RSDD_NO_EVIDENCE": "1"})
            cur = None
            for line in out.splitlines():
                m = re.match(r"VIOLATION property=(C\d+)", line)
                if m:
                    cur = m.group(1)
                    fired.setdefault(cur, [])
                m2 = re.match(r"\s+rule=(\S+) key=(\S.*?) at ", line)
                if m2 and cur:
                    fired[cur].append(m2.group(2))
                if line.startswith("CHECKER-ERROR"):
                    fired.setdefault("CHECKER-ERROR", []).append(line[:300])
        finally:
            sh(["git", "-C", REPO, "checkout", "--", "."])
        own = meta["property"]
        meta["checks_fired"] = fired
        meta["detected_by_own_property_check"] = own in fired
        meta["detected_by_any_check"] = bool([k for k in fired if k != "CHECKER-ERROR"])
        meta["checked_s"] = round(time.time() - t0, 1)
        json.dump(meta, open(os.path.join(d, "meta.json"), "w"), indent=1)
        summary[sid] = fired
        print("%-10s own=%-5s any=%-5s %s" % (sid, meta["detected_by_own_property_check"], meta["detected_by_any_check"],
                                              {k: v[:2] for k, v in fired.items()}))
    rc, st = sh(["git", "-C", REPO, "status", "--porcelain"])
    if st.strip():
        print("WARNING: /repo not clean after run:\n" + st)
    return 0


if __name__ == "__main__":
    if sys.argv[1] == "confirm":
        sys.exit(confirm(sys.argv[2], sys.argv[3]))
    if sys.argv[1] == "check":
        sys.exit(check(sys.argv[2:]))
