#!/usr/bin/env python3
"""dev helper: run_rule.py <facts-dir | patch.diff | run> <RULE> [key-substring]  — print the instances of one rule family"""
import os, sys, subprocess, tempfile, shutil
V = os.path.dirname(os.path.dirname(os.path.abspath(__file__)))
sys.path.insert(0, V)
from rules import explore
from rules.registry import RULES
src, rid = sys.argv[1], sys.argv[2]
sub = sys.argv[3] if len(sys.argv) > 3 else ""
tmp = None
if src.endswith(".diff") or src.endswith(".patch"):
    tmp = tempfile.mkdtemp(prefix="rr.")
    subprocess.run([sys.executable, os.path.join(V, "tools", "patch_facts.py"), src, tmp], check=True)
    src = tmp
try:
    prog = explore.load(src)
    for x in RULES[rid]["run"](prog):
        if sub in x["key"]:
            print("%-9s %s\n            %s" % (x["verdict"], x["key"], x["detail"][:400]))
finally:
    if tmp:
        shutil.rmtree(tmp, ignore_errors=True)
