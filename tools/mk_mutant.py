#!/usr/bin/env python3
"""dev helper: mk_mutant.py <refactoring.diff> <file> <old> <new> <out.diff> — apply the refactoring to a scratch copy of
/repo, replace <old> by <new> once in <file>, and write the combined diff (refactoring + mutation) to <out.diff>"""
import os, shutil, subprocess, sys
V = os.path.dirname(os.path.dirname(os.path.abspath(__file__)))
sys.path.insert(0, V)
from tools.selftest import make_copy
patch, f, old, new, out = sys.argv[1:6]
d, dst = make_copy()
try:
    subprocess.run(["git", "init", "-q"], cwd=dst, check=True)
    subprocess.run(["git", "add", "-A"], cwd=dst, check=True)
    subprocess.run(["git", "-c", "user.email=x@x", "-c", "user.name=x", "commit", "-qm", "base"], cwd=dst, check=True)
    subprocess.run(["git", "apply", os.path.abspath(patch)], cwd=dst, check=True)
    p = os.path.join(dst, f)
    s = open(p).read()
    assert s.count(old) >= 1, "old text not found"
    open(p, "w").write(s.replace(old, new, 1))
    r = subprocess.run(["git", "diff"], cwd=dst, capture_output=True, text=True, check=True)
    open(out, "w").write(r.stdout)
    print("wrote", out, len(r.stdout.splitlines()), "lines")
finally:
    shutil.rmtree(d, ignore_errors=True)
