#!/usr/bin/env python3
"""dev helper: case_facts.py <case-name> <outdir> — apply one self-test case to a scratch copy, keep the fact files"""
import os, sys, json, shutil
V = os.path.dirname(os.path.dirname(os.path.abspath(__file__)))
sys.path.insert(0, V)
from rules import facts
from tools.selftest import make_copy
from selftest.cases import CASES
case = [c for c in CASES if c["name"] == sys.argv[1]][0]
d, dst = make_copy()
try:
    edits = [(case["file"], case["old"], case["new"])] + list(case.get("more", []))
    for f, old, new in edits:
        p = os.path.join(dst, f)
        s = open(p).read()
        assert s.count(old) >= 1, "old text not found in " + f
        open(p, "w").write(s.replace(old, new, 1))
    fcts, m = facts.run_driver(repo=dst)
    os.makedirs(sys.argv[2], exist_ok=True)
    for n, j in fcts.items():
        json.dump(j, open(os.path.join(sys.argv[2], n), "w"))
finally:
    shutil.rmtree(d, ignore_errors=True)
