#!/usr/bin/env python3
"""Orchestrator: one entry point for every property.

  python3 check.py <Cxx> [--tier quick|thorough]
  python3 check.py <Cxx> --replay findings/<file>.json
  python3 check.py all  [--tier quick]          (development: all properties, one driver pass)

exit 0: property held on everything analysed (known findings are printed, not alarms)
exit 1: at least one `VIOLATION property=<id> replay=<path>` line
exit 2: the checker itself is broken (missing anchor, missing fact file, instance floor not met)
"""
import argparse
import hashlib
import json
import os
import sys
import time
import traceback

VERIF = os.path.dirname(os.path.abspath(__file__))
sys.path.insert(0, VERIF)

from rules import facts, mir  # noqa: E402
from rules.facts import CheckerError  # noqa: E402
from rules.registry import PROPS, RULES  # noqa: E402

KNOWN = os.path.join(VERIF, "known_findings.json")


def load_known():
    if not os.path.exists(KNOWN):
        return []
    return json.load(open(KNOWN))["findings"]


class RuleFailed(list):
    """the (empty) instance list of a rule that could not find its anchors, with the reason"""
    def __init__(self, why):
        super().__init__()
        self.why = why


def run_rules(prog, rule_ids, cache):
    out = {}
    for rid in rule_ids:
        if rid not in cache:
            try:
                cache[rid] = RULES[rid]["run"](prog)
            except CheckerError as e:
                # an anchor of this rule is gone: the rule decides nothing (its floor fails below), but the other
                # rules of the property are still evaluated, so that a definite violation is reported as one
                cache[rid] = RuleFailed(str(e))
        out[rid] = cache[rid]
    return out


def check_property(pid, prog, meta, tier, cache, extra_progs=(), t0=None, thorough_extra=None):
    spec = PROPS[pid]
    t0 = t0 or time.time()
    known = [k for k in load_known() if k["property"] == pid]
    known_keys = {k["key"]: k for k in known if k.get("status") == "known"}
    insts = []
    per_rule = {}
    floor_errors = []
    for rid, floor, sel in spec["rules"]:
        res = run_rules(prog, [rid], cache)[rid]
        if isinstance(res, RuleFailed):
            floor_errors.append("rule %s for %s could not run: %s" % (rid, pid, res.why))
        if sel:
            res = [r for r in res if sel(r)]
        decided = [r for r in res if r["verdict"] in ("ok", "violation")]
        per_rule[rid if rid not in per_rule else "%s#%d" % (rid, len(per_rule))] = {"instances": len(res), "decided": len(decided),
                         "ok": sum(1 for r in res if r["verdict"] == "ok"),
                         "violation": sum(1 for r in res if r["verdict"] == "violation"),
                         "undecided": sum(1 for r in res if r["verdict"] == "undecided"),
                         "floor": floor}
        if len(decided) < floor:
            floor_errors.append("rule %s for %s decided %d instances, floor is %d (a rule matching "
                                "too little passes vacuously; fail closed)" % (rid, pid, len(decided), floor))
        insts += res
    # extra configurations (thorough): union, worst verdict wins
    extra_meta = []
    for (p2, m2, c2) in extra_progs:
        extra_meta.append(m2)
        for rid, floor, sel in spec["rules"]:
            if RULES[rid].get("needs") and not all(f in m2["features"].split(",") for f in RULES[rid]["needs"]):
                continue
            res = run_rules(p2, [rid], c2)[rid]
            if sel:
                res = [r for r in res if sel(r)]
            have = {r["key"]: r for r in insts}
            for r in res:
                if r["key"] not in have:
                    r = dict(r)
                    r["config"] = "%s/%s" % (m2["features"], m2["profile"])
                    insts.append(r)
                elif r["verdict"] == "violation" and have[r["key"]]["verdict"] != "violation":
                    have[r["key"]].update(verdict="violation", detail=r["detail"],
                                          config="%s/%s" % (m2["features"], m2["profile"]))
    viols = [r for r in insts if r["verdict"] == "violation"]
    new_viols = [r for r in viols if r["key"] not in known_keys]
    if floor_errors and not new_viols:
        # a definite violation is reported as such; a shrunken instance set alone is a broken check
        raise CheckerError("; ".join(floor_errors))
    lines = []
    for r in viols:
        if r["key"] in known_keys:
            lines.append("KNOWN-FINDING: property=%s %s — %s" % (pid, r["key"], known_keys[r["key"]]["what"]))
    os.makedirs(os.path.join(VERIF, "findings"), exist_ok=True)
    for r in new_viols:
        h = hashlib.sha1(r["key"].encode()).hexdigest()[:10]
        path = os.path.join(VERIF, "findings", "%s-%s.json" % (pid, h))
        json.dump({"property": pid, "instance": r, "meta": meta}, open(path, "w"), indent=1)
        lines.append("VIOLATION property=%s replay=%s" % (pid, path))
        lines.append("  rule=%s key=%s at %s: %s" % (r["rule"], r["key"], r.get("loc"), r["detail"]))
    # a known finding that no longer fires is reported (informational)
    fired = {r["key"] for r in viols}
    for k in known_keys:
        if k not in fired:
            lines.append("NOTE: known finding %s did not fire on this tree (fixed or code moved)" % k)
    ok = [r for r in insts if r["verdict"] == "ok"]
    und = [r for r in insts if r["verdict"] == "undecided"]
    obligations = len([r for r in insts if r["verdict"] != "undecided"])
    distinct = len({r["key"] for r in insts if r["verdict"] != "undecided"})
    samples = []
    seen_rules = {}
    for r in insts:
        n = seen_rules.get(r["rule"], 0)
        if n < 6 or r["verdict"] != "ok":
            samples.append({k: r[k] for k in ("rule", "key", "verdict", "fn", "loc", "detail") if k in r})
            seen_rules[r["rule"]] = n + 1
    cov = {
        "explanation": spec["explanation"],
        "obligations": obligations,
        "discharged": len(ok),
        "known_findings": [r["key"] for r in viols if r["key"] in known_keys],
        "undecided": [r["key"] for r in und],
        "checker_cmd": "python3 check.py %s --tier %s" % (pid, tier),
        "trusted_base": ["rustc 1.97.0-nightly front end, type checker and MIR construction",
                         "rsdd-sa driver's MIR-to-JSON dump (/verif/sa)",
                         "the frozen rule tables in /verif/rules (callee names, roles, argument positions)",
                         "def-use term reconstruction ignores unwinding paths"],
        "evaluations": len(insts),
        "distinct_nontrivial": distinct,
        "rule": "one instance per (rule, function, site/role); non-trivial = the rule reached a verdict "
                "(ok or violation) on a construct found in /repo's current source; undecided instances are "
                "excluded from the count",
        "samples": samples[:60],
        "per_rule": per_rule,
        "analysed": meta,
        "extra_configs": extra_meta,
        "exhaustive": False,
    }
    if thorough_extra:
        cov.update(thorough_extra)
    ev = {
        "property_id": pid,
        "tier": tier,
        "seed": int(os.environ.get("VERIF_SEED", "0") or 0),
        "level": spec["level"],
        "coverage": cov,
        "assumptions": spec.get("assumptions", []),
        "wall_s": round(time.time() - t0, 2),
        "violations": len(new_viols),
    }
    if not os.environ.get("RSDD_NO_EVIDENCE"):   # set only by tools/seeded.py (runs on a deliberately broken tree)
        os.makedirs(os.path.join(VERIF, "evidence"), exist_ok=True)
        json.dump(ev, open(os.path.join(VERIF, "evidence", pid + ".json"), "w"), indent=1)
    return lines, len(new_viols), per_rule


def main():
    ap = argparse.ArgumentParser()
    ap.add_argument("prop")
    ap.add_argument("--tier", default=os.environ.get("VERIF_TIER", "quick"))
    ap.add_argument("--replay")
    ap.add_argument("--facts", help="development: load fact files from a directory instead of running the driver")
    a = ap.parse_args()
    t0 = time.time()
    try:
        if a.replay:
            return replay(a)
        if a.facts:
            from rules import explore
            prog = explore.load(a.facts)
            meta = {"facts_dir": a.facts}
        else:
            f, meta = facts.run_driver()
            prog = mir.Program(f, meta)
        pids = sorted(PROPS) if a.prop == "all" else [a.prop]
        for pid in pids:
            if pid not in PROPS:
                print("property %s is not claimed (see MANIFEST.json not_applicable)" % pid)
                return 2
        cache = {}
        extra = []
        thorough_extra = None
        if a.tier == "thorough" and not a.facts:
            from rules import thorough
            extra, thorough_extra_all = thorough.extra_configs(pids)
        rc = 0
        for pid in pids:
            te = None
            tbroken = 0
            tp = time.time() if a.prop == "all" else t0
            if a.tier == "thorough" and not a.facts:
                from rules import thorough
                te, tlines, tviol, tbroken = thorough.run_for(pid, prog)
            else:
                tlines, tviol = [], 0
            try:
                lines, nv, per_rule = check_property(pid, prog, meta, a.tier, cache, extra, tp, te)
            except CheckerError as e:
                if a.prop != "all":
                    raise
                # `all` is a development convenience (the registered commands name one property each): a broken
                # check of one property must not hide the verdicts of the others
                print("CHECKER-ERROR: %s" % e)
                print("%s: BROKEN" % pid)
                if rc == 0:
                    rc = 2
                continue
            for ln in lines + tlines:
                print(ln)
            summ = ", ".join("%s %d/%d" % (r, v["ok"], v["decided"]) for r, v in per_rule.items())
            print("%s: %s  [%s]" % (pid, "VIOLATED" if (nv or tviol) else "held", summ))
            if nv or tviol:
                rc = 1
            elif tbroken and rc == 0:
                rc = 2
        return rc
    except CheckerError as e:
        print("CHECKER-ERROR: %s" % e)
        return 2
    except Exception:
        traceback.print_exc()
        print("CHECKER-ERROR: internal exception")
        return 2


def replay(a):
    j = json.load(open(a.replay))
    pid = j["property"]
    want = j["instance"]
    f, meta = facts.run_driver()
    prog = mir.Program(f, meta)
    rid = want["rule"]
    if rid == "IM-witness":
        from rules import thorough
        ok, c = thorough.run_witnesses()
        print(json.dumps(c, indent=1))
        if any("compile fail" in l for l in c.get("witness_failed", [])):
            print("VIOLATION property=%s replay=%s" % (pid, a.replay))
            return 1
        return 0
    res = RULES[rid]["run"](prog)
    hit = [r for r in res if r["key"] == want["key"]]
    if not hit:
        print("instance %s no longer exists on the current tree" % want["key"])
        return 0
    r = hit[0]
    print(json.dumps(r, indent=1))
    if r["verdict"] == "violation":
        print("VIOLATION property=%s replay=%s" % (pid, a.replay))
        return 1
    return 0


if __name__ == "__main__":
    sys.exit(main())
