//! Compile-fail witnesses (and compiling twins) for the type-level part of IM:
//! an interned node cannot be mutated or reached around the unique table from
//! outside the crate.  Each `compile_fail,E0xxx` test must fail with exactly
//! that error; its twin differs only by the offending line and must compile.

/// W1: a node's structural field cannot be assigned through a pointer.
/// ```compile_fail,E0594
/// use rsdd::repr::{BddNode, BddPtr, VarLabel};
/// let node = BddNode::new(VarLabel::new(0), BddPtr::PtrFalse, BddPtr::PtrTrue);
/// let p = BddPtr::Reg(&node);
/// if let BddPtr::Reg(n) = p {
///     n.low = BddPtr::PtrTrue;
/// }
/// ```
/// twin (compiled, never run):
/// ```no_run
/// use rsdd::repr::{BddNode, BddPtr, VarLabel};
/// let node = BddNode::new(VarLabel::new(0), BddPtr::PtrFalse, BddPtr::PtrTrue);
/// let p = BddPtr::Reg(&node);
/// if let BddPtr::Reg(n) = p {
///     let _ = n.low;
/// }
/// ```
pub struct W1NodeFieldAssign;

/// W2: the unique table module is not nameable from outside the crate.
/// ```compile_fail,E0603
/// use rsdd::backing_store::BackedRobinhoodTable;
/// ```
/// twin (compiled, never run):
/// ```no_run
/// use rsdd::builder::bdd::RobddBuilder;
/// ```
pub struct W2TablePrivate;

/// W3: the scratch cell of a BDD node is private (only set_scratch/clear_scratch reach it).
/// ```compile_fail,E0616
/// use rsdd::repr::{BddNode, BddPtr, VarLabel};
/// let node = BddNode::new(VarLabel::new(0), BddPtr::PtrFalse, BddPtr::PtrTrue);
/// let _ = node.data.borrow();
/// ```
/// twin (compiled, never run):
/// ```no_run
/// use rsdd::repr::{BddNode, BddPtr, VarLabel};
/// let node = BddNode::new(VarLabel::new(0), BddPtr::PtrFalse, BddPtr::PtrTrue);
/// let _ = BddPtr::Reg(&node).is_scratch_cleared();
/// ```
pub struct W3ScratchPrivate;

/// W4: an SDD decision node's element list cannot be touched from outside.
/// ```compile_fail,E0616
/// use rsdd::repr::{SddOr, VTree, VTreeManager, VarLabel};
/// let m = VTreeManager::new(VTree::right_linear(&[VarLabel::new(0), VarLabel::new(1)]));
/// let mut o = SddOr::new(vec![], m.var_index(VarLabel::new(0)));
/// o.nodes.clear();
/// ```
/// twin (compiled, never run):
/// ```no_run
/// use rsdd::repr::{SddOr, VTree, VTreeManager, VarLabel};
/// let m = VTreeManager::new(VTree::right_linear(&[VarLabel::new(0), VarLabel::new(1)]));
/// let o = SddOr::new(vec![], m.var_index(VarLabel::new(0)));
/// let _ = o.iter().count();
/// ```
pub struct W4SddOrElementsPrivate;

/// W5: the children of a binary SDD node are private fields (read through accessors only).
/// ```compile_fail,E0616
/// use rsdd::repr::{BinarySDD, SddPtr, VTree, VTreeManager, VarLabel};
/// let m = VTreeManager::new(VTree::right_linear(&[VarLabel::new(0), VarLabel::new(1)]));
/// let mut b = BinarySDD::new(VarLabel::new(0), SddPtr::PtrFalse, SddPtr::PtrTrue, m.var_index(VarLabel::new(0)));
/// b.low = SddPtr::PtrTrue;
/// ```
/// twin (compiled, never run):
/// ```no_run
/// use rsdd::repr::{BinarySDD, SddPtr, VTree, VTreeManager, VarLabel};
/// let m = VTreeManager::new(VTree::right_linear(&[VarLabel::new(0), VarLabel::new(1)]));
/// let b = BinarySDD::new(VarLabel::new(0), SddPtr::PtrFalse, SddPtr::PtrTrue, m.var_index(VarLabel::new(0)));
/// let _ = b.low();
/// ```
pub struct W5BinarySddChildrenPrivate;
